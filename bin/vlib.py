"""Shared driver code: build the harness from /repo's working tree, run it, validate traces with
TLC against PosterTrace.tla, aggregate per-run verdicts, apply known findings, write evidence."""
import json, os, subprocess, sys, time, shutil, re, hashlib, concurrent.futures

VERIF = os.path.dirname(os.path.dirname(os.path.abspath(__file__)))   # /verif, or a snapshot of it (vp run)
HARNESS = os.path.join(VERIF, "harness")
SPEC = os.path.join(VERIF, "spec")
OUT = os.path.join(VERIF, "out")
JAVA_OPTS = "-Xss1g -Xmx3g -Dtlc2.tool.queue.IStateQueue=StateDeque"


class ToolError(Exception):
    pass


def log(*a):
    print(*a, file=sys.stderr, flush=True)


def seed():
    try:
        return int(os.environ.get("VERIF_SEED", "1"))
    except ValueError:
        return 1


def outdir(prop):
    d = os.path.join(OUT, prop)
    os.makedirs(d, exist_ok=True)
    return d


def build(modes=("dev",)):
    """Rebuilds the harness (and with it poster from /repo's current working tree)."""
    bins = {}
    for m in modes:
        cmd = ["cargo", "build", "--offline", "--quiet"] + (["--release"] if m == "release" else [])
        r = subprocess.run(cmd, cwd=HARNESS, stdout=subprocess.PIPE, stderr=subprocess.PIPE, text=True)
        if r.returncode != 0:
            sys.stderr.write(r.stderr[-4000:])
            raise ToolError("harness build failed (%s)" % m)
        bins[m] = os.path.join(HARNESS, "target", "release" if m == "release" else "debug", "pvh")
    return bins


class HarnessCrash(Exception):
    """the harness process died (stack overflow / abort inside the code under test)"""


def pvh(binpath, args, timeout=1800):
    r = subprocess.run([binpath] + [str(a) for a in args], stdout=subprocess.PIPE, stderr=subprocess.PIPE, text=True, timeout=timeout)
    if r.returncode in (134, -6, -11, 139):
        raise HarnessCrash((r.stderr or "").strip().splitlines()[-2:] )
    if r.returncode not in (0,):
        sys.stderr.write(r.stderr[-2000:])
        raise ToolError("pvh %s exited %d" % (args[0], r.returncode))
    return r.stdout


def tlc_trace(trace_path, tag):
    """Validates one NDJSON trace file. Returns (runs: {run: [verdict,...]}, stats)."""
    md = os.path.join(OUT, "md", "%s.%d" % (tag, os.getpid()))
    os.makedirs(os.path.dirname(md), exist_ok=True)
    env = dict(os.environ, TRACE=trace_path, JAVA_TOOL_OPTIONS=JAVA_OPTS)
    cmd = ["tlc", "-workers", "1", "-metadir", md, "-cleanup", "-noGenerateSpecTE", "-config", "PosterTrace.cfg", "PosterTrace.tla"]
    t0 = time.time()
    r = subprocess.run(cmd, cwd=SPEC, env=env, stdout=subprocess.PIPE, stderr=subprocess.STDOUT, text=True, timeout=3000)
    shutil.rmtree(md, ignore_errors=True)
    runs = {}
    done = False
    states = 0
    for line in r.stdout.splitlines():
        line = line.strip()
        if line.startswith('"RUN '):
            body = json.loads(line)  # the printed TLA+ string is a valid JSON string literal
            run, fam, verdict = json.loads(body[4:])
            runs.setdefault((run, fam), []).append(verdict)
        elif line.startswith('"DONE '):
            done = True
        else:
            m = re.match(r"(\d+) states generated, (\d+) distinct states found", line)
            if m:
                states = int(m.group(2))
    if not done or "Error:" in r.stdout:
        sys.stderr.write(r.stdout[-3000:])
        raise ToolError("TLC did not consume trace %s" % trace_path)
    return runs, {"states": states, "wall": time.time() - t0}


def aggregate(runs):
    """A run is violating only if every branch carries a verdict; then report the verdict with the
    longest clean prefix."""
    res = {}
    for key, vs in runs.items():
        if any(v == [] for v in vs):
            res[key] = None
        else:
            best = max(vs, key=lambda v: (v[2], str(v[0]), str(v[1])))
            # branches that diverge at the same (latest) line with the same clause differ only in what else the reference
            # state says was owed at that point: the run breaks each of those obligations under some reading, so the tags unite
            tags = []
            for v in vs:
                if v[2] == best[2] and v[1] == best[1]:
                    for t in (v[0] if isinstance(v[0], list) else [v[0]]):
                        if t not in tags:
                            tags.append(t)
            res[key] = [tags if len(tags) > 1 else tags[0]] + list(best[1:])
    return res


def validate_many(trace_files, tag, workers=8):
    """Validates several trace files in parallel; returns merged {(run,fam): verdict-or-None}, stats."""
    merged, states, wall = {}, 0, 0.0
    with concurrent.futures.ThreadPoolExecutor(max_workers=workers) as ex:
        futs = {ex.submit(tlc_trace, f, "%s.%d" % (tag, i)): f for i, f in enumerate(trace_files)}
        for fu in concurrent.futures.as_completed(futs):
            runs, st = fu.result()
            for k, v in aggregate(runs).items():
                merged[(futs[fu],) + k] = v
            states += st["states"]
            wall += st["wall"]
    return merged, {"states": states, "tlc_wall": wall}


# ------------------------------------------------------------------------------------------------
# known findings

def load_findings():
    p = os.path.join(VERIF, "known_findings.json")
    if not os.path.exists(p):
        return []
    return json.load(open(p))["findings"]


def disc_of(verdict):
    """discriminator of a verdict: clause plus the non-numeric part of its detail"""
    prop, clause, line, detail = verdict
    return clause


def match_finding(findings, prop, verdict):
    for f in findings:
        if f["property"] != prop or f.get("status") != "open":
            continue
        if f["clause"] != verdict[1]:
            continue
        pat = f.get("detail_regex")
        if pat and not re.search(pat, json.dumps(verdict[3])):
            continue
        return f
    return None


# ------------------------------------------------------------------------------------------------
# evidence

def write_evidence(prop, tier, level, coverage, wall, violations, assumptions):
    os.makedirs(os.path.join(VERIF, "evidence"), exist_ok=True)
    ev = {"property_id": prop, "tier": tier, "seed": seed(), "level": level, "coverage": coverage,
          "assumptions": assumptions, "wall_s": round(wall, 2), "violations": violations}
    with open(os.path.join(VERIF, "evidence", prop + ".json"), "w") as f:
        json.dump(ev, f, indent=1)


def extract_run(trace_file, run):
    """Returns the trace lines of one run (from its reset line to the next reset/end)."""
    out, on = [], False
    with open(trace_file) as f:
        for line in f:
            try:
                e = json.loads(line)
            except ValueError:
                continue
            if e.get("e") == "reset":
                on = e.get("run") == run
            elif e.get("e") == "end":
                on = False
            if on:
                out.append(line.rstrip("\n"))
    return out


def extract_script(script_file, run):
    if not script_file or not os.path.exists(script_file):
        return None
    with open(script_file) as f:
        for line in f:
            try:
                e = json.loads(line)
            except ValueError:
                continue
            if e.get("run") == run:
                return e
    return None


def write_replay(prop, fam, trace_file, script_file, run, verdict):
    d = os.path.join(OUT, "replay")
    os.makedirs(d, exist_ok=True)
    path = os.path.join(d, "%s-%s-%d-%d.json" % (prop, fam, seed(), run))
    rec = {"property": prop, "family": fam, "seed": seed(), "run": run, "verdict": verdict,
           "script": extract_script(script_file, run), "trace": extract_run(trace_file, run)}
    with open(path, "w") as f:
        json.dump(rec, f, indent=0)
    return path
