#!/bin/bash
# usage: try_mutant.sh <patch.diff> <prop> [more props...]   -- applies the patch to /repo, runs the quick checks, undoes it
P="$1"; shift
cd /repo && git apply "$P" || { echo "patch does not apply"; exit 2; }
for prop in "$@"; do
  ( cd /verif && timeout 1500 bin/check "$prop" quick 2>&1 | grep -E 'VIOLATION|KNOWN|TOOL|clause=|runs validated' ; echo "rc($prop)=${PIPESTATUS[0]}" )
done
git -C /repo checkout -- . && git -C /repo status --short | head -3
