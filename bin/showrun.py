#!/usr/bin/env python3
import json,sys
sys.path.insert(0,'/verif/bin')
import vlib
f=sys.argv[1]; run=int(sys.argv[2]); line=int(sys.argv[3]); before=int(sys.argv[4]) if len(sys.argv)>4 else 30
lines=vlib.extract_run(f,run)
all=open(f).read().splitlines()
start=all.index(lines[0])
t=line-1-start
for i,l in enumerate(lines[max(0,t-before):t+3]):
    print(i+max(0,t-before)+start+1, l[:240])
