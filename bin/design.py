"""Design-model runs: TLC on Poster.tla (and Framing.tla) configurations."""
import os, re, subprocess, time, json
import vlib


def run_cfg(module, cfgname, timeout, workers=16):
    cfgpath = os.path.join(vlib.SPEC, cfgname + ".cfg")
    if not os.path.exists(cfgpath):
        return None
    md = os.path.join(vlib.OUT, "md", "%s.%d" % (cfgname, os.getpid()))
    os.makedirs(os.path.dirname(md), exist_ok=True)
    cmd = ["timeout", str(timeout), "tlc", "-workers", str(workers), "-metadir", md, "-cleanup", "-noGenerateSpecTE",
           "-config", cfgname + ".cfg", module + ".tla"]
    env = dict(os.environ, JAVA_TOOL_OPTIONS="-Xss64m -Xmx8g")
    t0 = time.time()
    r = subprocess.run(cmd, cwd=vlib.SPEC, env=env, stdout=subprocess.PIPE, stderr=subprocess.STDOUT, text=True)
    import shutil
    shutil.rmtree(md, ignore_errors=True)
    out = r.stdout
    res = {"cfg": cfgname, "module": module, "wall_s": round(time.time() - t0, 1), "complete": False}
    m = re.search(r"(\d+) states generated, (\d+) distinct states found, (\d+) states left on queue", out)
    if m:
        res["transitions"] = int(m.group(1))
        res["states"] = int(m.group(2))
        res["complete"] = int(m.group(3)) == 0 and "Model checking completed" in out
    m = re.search(r"The depth of the complete state graph search is (\d+)", out)
    if m:
        res["depth"] = int(m.group(1))
    if "is violated" in out or "was violated" in out or ("Error: " in out and "Invariant" in out):
        m = re.search(r"Invariant (\S+) is violated", out) or re.search(r"property (\S+) (?:is|was) violated", out)
        res["violation"] = m.group(1) if m else "error"
        p = os.path.join(vlib.OUT, "replay", "design-%s.txt" % cfgname)
        os.makedirs(os.path.dirname(p), exist_ok=True)
        open(p, "w").write(out[-20000:])
        res["replay"] = p
    elif r.returncode not in (0,) and not res.get("states"):
        raise vlib.ToolError("TLC failed on %s: %s" % (cfgname, out[-1500:]))
    return res


def run(prop, cfgs, tier):
    """Runs the design configurations registered for a property; returns merged stats or None."""
    merged = None
    for c in cfgs:
        name = c + ("_quick" if tier == "quick" and os.path.exists(os.path.join(vlib.SPEC, c + "_quick.cfg")) else "")
        module = "Framing" if c.startswith("MC_Framing") else "Poster"
        r = run_cfg(module, name, 600 if tier == "quick" else 3000)
        if r is None:
            continue
        if merged is None:
            merged = dict(r)
        else:
            merged["states"] = merged.get("states", 0) + r.get("states", 0)
            merged["transitions"] = merged.get("transitions", 0) + r.get("transitions", 0)
            if r.get("violation"):
                merged["violation"] = r["violation"]; merged["replay"] = r.get("replay")
    return merged


# ------------------------------------------------------------------------------------------------
# spec -> code: behaviours of the design model exported as harness scripts

def _consts(cfgname):
    src = open(os.path.join(vlib.SPEC, cfgname + ".cfg")).read()
    def num(name, default):
        m = re.search(r"^\s*%s\s*=\s*(\d+)" % name, src, re.M)
        return int(m.group(1)) if m else default
    hs = re.search(r'^\s*Handshake\s*=\s*"(\w+)"', src, re.M)
    return {"R": num("Rmax", 2), "Msz": num("Msz", 0), "hs": hs.group(1) if hs else "none"}


def _spec_of(o, k):
    """harness operation spec for design-model kind k of slot o (lengths chosen so that with a real
    Maximum Packet Size of 30 'big1' (30 bytes) is the largest accepted and 'huge1' (31 bytes) the smallest refused)"""
    t = "t/%d" % o
    if k in ("pub0", "pub1", "pub2"):
        return {"kind": "pub", "qos": int(k[3]), "topic": t, "payload": {"tag": "p%d" % o, "n": 1}}
    if k == "big1":
        return {"kind": "pub", "qos": 1, "topic": t, "payload": {"tag": "p%d" % o, "n": 20}}
    if k == "huge1":
        return {"kind": "pub", "qos": 1, "topic": t, "payload": {"tag": "p%d" % o, "n": 21}}
    if k == "sub":
        return {"kind": "sub", "filters": [{"f": "f/%d" % o, "qos": 2}]}
    if k == "unsub":
        return {"kind": "unsub", "filters": [{"f": "f/%d" % o}]}
    if k == "disc":
        return {"kind": "disc"}
    return {"kind": "ping"}


def export_scripts(cfgname, num, depth, seed, out_path, fam):
    """Runs TLC in simulation mode on <cfgname> and writes one harness script per behaviour."""
    base = open(os.path.join(vlib.SPEC, cfgname + ".cfg")).read()
    sim = re.sub(r"^VIEW.*\n", "", base, flags=re.M)
    sim = sim.replace("SPECIFICATION Spec", "SPECIFICATION SimSpec").replace("RecordSched = FALSE", "RecordSched = TRUE")
    sim = re.sub(r"INVARIANTS.*", "INVARIANTS Export", sim)
    tmp = "SIM_%s_%d" % (cfgname, os.getpid())
    open(os.path.join(vlib.SPEC, tmp + ".cfg"), "w").write(sim)
    md = os.path.join(vlib.OUT, "md", tmp)
    cmd = ["timeout", "900", "tlc", "-workers", "1", "-simulate", "num=%d" % num, "-depth", str(depth), "-seed", str(seed),
           "-metadir", md, "-noGenerateSpecTE", "-config", tmp + ".cfg", "Poster.tla"]
    r = subprocess.run(cmd, cwd=vlib.SPEC, stdout=subprocess.PIPE, stderr=subprocess.STDOUT, text=True,
                       env=dict(os.environ, JAVA_TOOL_OPTIONS="-Xss64m -Xmx4g"))
    os.remove(os.path.join(vlib.SPEC, tmp + ".cfg"))
    import shutil
    shutil.rmtree(md, ignore_errors=True)
    c = _consts(cfgname)
    n = 0
    seen = set()
    with open(out_path, "w") as f:
        for line in r.stdout.splitlines():
            line = line.strip()
            if not line.startswith('"SCHED '):
                continue
            body = json.loads(line)[6:]
            if body in seen:
                continue
            seen.add(body)
            raw = json.loads(body)
            seik = next((x["sei"] for x in raw if x["a"] == "resume"), "never")
            sei = {"zero": 0, "finite": 100, "never": 4294967295}[seik]
            steps = [{"a": "reset", "run": n, "fam": fam, "R": c["R"], "M": 30 if c["Msz"] else None, "disc": "wake", "sei_connect": sei,
                      "defer": c["hs"] != "none", "auth": c["hs"] == "auth"}]
            last_ctx = False
            for st in raw:
                if st["a"] == "call":
                    steps.append({"a": "call", "op": st["op"], "h": 0, "spec": _spec_of(st["op"], st["k"])})
                    last_ctx = False
                elif st["a"] == "poll" and st["t"] == "ctx":
                    if not last_ctx:
                        steps.append(st)
                    last_ctx = True
                elif st["a"] == "handshake":
                    # the model starts inside connect(): what it did so far happened before the CONNACK
                    steps.append({"a": "handshake", "R": c["R"], "M": 30 if c["Msz"] else None, "sei_connect": sei, "fam": fam, "run": n,
                                  "defer": True, "auth": bool(st.get("auth"))})
                    last_ctx = False
                elif st["a"] == "resume":
                    # the connection was lost (run() has returned): record the disconnection and connect again
                    steps.append({"a": "markdisc", "secs": 150 if st["age"] == "after" else 0})
                    # the second connection announces its own Receive Maximum / Maximum Packet Size (model size 10 = 30 real bytes)
                    steps.append({"a": "reconnect", "R": st.get("R", c["R"]), "M": 30 if st.get("M", c["Msz"]) else None, "sei_connect": sei, "fam": fam, "run": n})
                    last_ctx = False
                elif st["a"] == "drop" and st["t"] == "h":
                    steps.append({"a": "drop", "t": "h", "k": 0})
                    last_ctx = False
                else:
                    steps.append(st)
                    last_ctx = False
            f.write(json.dumps({"run": n, "seed": seed, "steps": steps}) + "\n")
            n += 1
    if n == 0:
        raise vlib.ToolError("no behaviours exported from %s: %s" % (cfgname, r.stdout[-1500:]))
    return n


# ------------------------------------------------------------------------------------------------
# unbounded strengthening for C10: the quota arithmetic as an inductive invariant, discharged by Apalache

def apalache_quota():
    d = os.path.join(vlib.SPEC, "apalache")
    runs = [("base", ["--init=Init", "--inv=IndInv", "--length=0"]),
            ("step", ["--init=IndInit", "--inv=IndInv", "--length=1"]),
            ("consequence", ["--init=IndInit", "--inv=Safe", "--length=0"])]
    out = {"tool": "apalache-mc 0.58", "module": "spec/apalache/QuotaInd.tla", "obligations": []}
    t0 = time.time()
    for name, args in runs:
        r = subprocess.run(["timeout", "600", "apalache-mc", "check", "--cinit=ConstInit"] + args + ["QuotaInd.tla"], cwd=d,
                           stdout=subprocess.PIPE, stderr=subprocess.STDOUT, text=True)
        ok = "EXITCODE: OK" in r.stdout
        out["obligations"].append({"name": name, "args": " ".join(args), "ok": ok})
        if not ok:
            import shutil
            shutil.rmtree(os.path.join(d, "_apalache-out"), ignore_errors=True)
            raise vlib.ToolError("Apalache did not discharge %s of QuotaInd: %s" % (name, r.stdout[-800:]))
    import shutil
    shutil.rmtree(os.path.join(d, "_apalache-out"), ignore_errors=True)
    out["wall_s"] = round(time.time() - t0, 1)
    out["statement"] = "for every Receive Maximum R in 1..65535: quota + outstanding = R is inductive under accept/refuse/complete; hence outstanding <= R, refusal iff R outstanding, all slots come back"
    return out
