"""Design-model runs: TLC on Poster.tla (and Framing.tla) configurations."""
import os, re, subprocess, time, json
import vlib


def run_cfg(module, cfgname, timeout, workers=8):
    cfgpath = os.path.join(vlib.SPEC, cfgname + ".cfg")
    if not os.path.exists(cfgpath):
        return None
    md = os.path.join(vlib.OUT, "md", "%s.%d" % (cfgname, os.getpid()))
    os.makedirs(os.path.dirname(md), exist_ok=True)
    cmd = ["timeout", str(timeout), "tlc", "-workers", str(workers), "-metadir", md, "-cleanup", "-noGenerateSpecTE",
           "-config", cfgname + ".cfg", module + ".tla"]
    env = dict(os.environ, JAVA_TOOL_OPTIONS="-Xss64m -Xmx8g")
    t0 = time.time()
    r = subprocess.run(cmd, cwd=vlib.SPEC, env=env, stdout=subprocess.PIPE, stderr=subprocess.STDOUT, text=True)
    import shutil
    shutil.rmtree(md, ignore_errors=True)
    out = r.stdout
    res = {"cfg": cfgname, "module": module, "wall_s": round(time.time() - t0, 1), "complete": False}
    m = re.search(r"(\d+) states generated, (\d+) distinct states found, (\d+) states left on queue", out)
    if m:
        res["transitions"] = int(m.group(1))
        res["states"] = int(m.group(2))
        res["complete"] = int(m.group(3)) == 0 and "Model checking completed" in out
    m = re.search(r"The depth of the complete state graph search is (\d+)", out)
    if m:
        res["depth"] = int(m.group(1))
    if "is violated" in out or "Error: " in out and "Invariant" in out:
        m = re.search(r"Invariant (\S+) is violated", out) or re.search(r"property (\S+) is violated", out)
        res["violation"] = m.group(1) if m else "error"
        p = os.path.join(vlib.OUT, "replay", "design-%s.txt" % cfgname)
        os.makedirs(os.path.dirname(p), exist_ok=True)
        open(p, "w").write(out[-20000:])
        res["replay"] = p
    elif r.returncode not in (0,) and not res.get("states"):
        raise vlib.ToolError("TLC failed on %s: %s" % (cfgname, out[-1500:]))
    return res


def run(prop, cfgs, tier):
    """Runs the design configurations registered for a property; returns merged stats or None."""
    merged = None
    for c in cfgs:
        name = c + ("_quick" if tier == "quick" and os.path.exists(os.path.join(vlib.SPEC, c + "_quick.cfg")) else "")
        module = "Framing" if c.startswith("MC_Framing") else "Poster"
        r = run_cfg(module, name, 600 if tier == "quick" else 3000)
        if r is None:
            continue
        if merged is None:
            merged = dict(r)
        else:
            merged["states"] = merged.get("states", 0) + r.get("states", 0)
            merged["transitions"] = merged.get("transitions", 0) + r.get("transitions", 0)
            if r.get("violation"):
                merged["violation"] = r["violation"]; merged["replay"] = r.get("replay")
    return merged
