#!/bin/bash
# usage: confirm_mutant.sh <worktree> <demo test name> [extra RUSTFLAGS]
# confirms in the scratch worktree: (0) the worktree's src diff is the patch, (1) existing tests pass with the change,
# (2) demo fails with it, (3) demo passes without it (git apply -R / git apply; no stash: the stash is shared between worktrees)
W="$1"; DEMO="$2"; export RUSTFLAGS="$3"
cd "$W" || exit 2
git diff -- src | diff -q - patch.diff >/dev/null && echo "== worktree diff == patch.diff" || echo "== WARNING: worktree diff differs from patch.diff"
echo "== existing tests with the change"
RUSTFLAGS= cargo test --offline --lib 2>&1 | grep -E 'test result' | head -2
echo "== demo with the change (expected: FAIL)"
cargo test --offline --test "$DEMO" 2>&1 | grep -E 'test result|error\[' | head -3
echo "== demo without the change (expected: ok)"
git apply -R patch.diff && cargo test --offline --test "$DEMO" 2>&1 | grep -E 'test result|error\[' | head -3; git apply patch.diff
git status --short | grep -v '^??' | head -5
