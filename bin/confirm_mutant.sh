#!/bin/bash
# usage: confirm_mutant.sh <worktree> <demo test name>
# confirms in the scratch worktree: (1) crate + existing tests pass with the change, (2) demo fails with it, (3) demo passes without it
W="$1"; DEMO="$2"
cd "$W" || exit 2
echo "== existing tests with the change"
cargo test --offline --lib 2>&1 | grep -E 'test result' | head -2
echo "== demo with the change (expected: FAIL)"
cargo test --offline --test "$DEMO" 2>&1 | grep -E 'test result|error\[' | head -3
echo "== demo without the change (expected: ok)"
git stash push -q -- src && cargo test --offline --test "$DEMO" 2>&1 | grep -E 'test result|error\[' | head -3; git stash pop -q
git status --short | head -5
