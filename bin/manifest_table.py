NA = {}
SESSION_NOTE = ("Trusted: the harness (mock AsyncRead/AsyncWrite, manual wakers, independent MQTT 5 codec), TLC, and the transcription "
                "of the property into PosterCore/PosterTrace clauses. Exhaustive only within the constants of the design configuration; "
                "beyond them coverage is by seeded random walks and targeted families of the real client.")
def sess(p, what):
    reg(p, "TLA+ design model checked by TLC + TLC trace validation of the real client (PosterTrace.tla) over random walks and replayed schedules",
        what, SESSION_NOTE, "DESIGN.md section 6 (%s)" % p)

sess("C05", "Every recorded run of the real client (all interleavings of the actor's unobservable choices explored by TLC) must be a behaviour of the reference in which each operation completes exactly once, only with the acknowledgement of its own type and identifier; divergences are classified per property.")
sess("C06", "Reference transition functions prescribe the QoS 1/2 handshake (one PUBLISH with DUP=0, PUBREL only after a successful PUBREC, outcome mapping at reason 0x80); every write and every result of the real client is compared with them along random walks over all legal reason codes.")
sess("C07", "Per subscribe call the reference keeps the FIFO of messages its stream must still yield; every item yielded by the real client is compared (order, content digest, flags) and quiescent points require the FIFO to be empty.")
sess("C08", "The reference owes exactly one acknowledgement of the right type and identifier per inbound QoS>0 PUBLISH / PUBREL, in arrival order; every acknowledgement the real client writes is matched against it and none may be missing at quiescent points.")
sess("C14", "After the context task is dropped the reference cancels every waiting operation and ends every stream; polls of the real client must report ContextExited / end of stream, and a sweep at the quiescent point shows nothing hangs.")
sess("C15", "Futures and streams are dropped at random points of random walks; the reference absorbs late acknowledgements (still freeing the slot) and run() may not return; every later write/result of the real client is still compared.")
