#!/bin/bash
# usage: process_mutants.sh <suffix> <prop>...   e.g. process_mutants.sh d C01 C02
# for each /tmp/mut/<prop><suffix>: confirm in its worktree, then run the property's quick check against it in the isolated copy
S="$1"; shift
for p in "$@"; do
  m=/tmp/mut/$p$S
  echo "######## $p$S"
  [ -f $m/patch.diff ] || { echo "no patch.diff"; continue; }
  fl=""; [ "$p" = C17 ] && fl="--cfg poster_verif"
  /verif/bin/confirm_mutant.sh $m demo "$fl" 2>&1 | grep -v WARNING
  ISO=${ISO:-/tmp/iso} /verif/bin/try_mutant_iso.sh $m/patch.diff $p 2>&1 | grep -v WARNING | tail -4
done
