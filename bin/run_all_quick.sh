#!/bin/bash
# runs every registered quick check on the current tree; prints one line per property
cd /verif
for p in $(python3 -c "import json;print(' '.join(c['property_id'] for c in json.load(open('MANIFEST.json'))['checks']))"); do
  s=$(date +%s); out=$(bin/check $p quick 2>&1); rc=$?; e=$(date +%s)
  echo "$p rc=$rc $((e-s))s :: $(echo "$out" | grep -E 'VIOLATION|KNOWN|TOOL|runs validated' | tr '\n' ' ' | cut -c1-230)"
done
