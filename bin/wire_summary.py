import json,collections,re,sys
c=collections.Counter(); ex={}
n=0
for l in open(sys.argv[1]):
    r=json.loads(l); n+=1
    if not r['ok']:
        why=re.sub(r'\d+','N',r['why'])[:110]
        k=(r.get('kind') or r.get('t'),why)
        c[k]+=1
        ex.setdefault(k,(r['why'][:220],(r.get('hex') or [''])[0][:90], json.dumps(r.get('o') or r.get('c'))[:400]))
print(n,'cases', sum(c.values()),'failures')
for k,v in c.most_common(): print(v,k,'\n     ',ex[k])
