#!/usr/bin/env python3
"""development helper: one generator family -> TLC validation -> aggregated verdicts"""
import sys, os, json, collections, time
sys.path.insert(0, os.path.dirname(__file__))
import vlib
gen = sys.argv[1]; tier = sys.argv[2] if len(sys.argv) > 2 else "quick"
extra = sys.argv[3:]
bins = vlib.build()
d = vlib.outdir("dev")
nsh = 8
files = []
t0=time.time()
for i in range(nsh):
    t = os.path.join(d, "g%d.ndjson" % i); s = os.path.join(d, "g%d.scripts" % i)
    vlib.pvh(bins["dev"], [gen, "--tier", tier, "--seed", int(os.environ.get("SEED", "1")), "--shard", i, "--shards", nsh, "--out", t, "--scripts", s] + extra)
    if os.path.getsize(t) > 20: files.append(t)
print("generated in %.1fs, %d lines" % (time.time()-t0, sum(sum(1 for _ in open(f)) for f in files)))
t0=time.time()
res, st = vlib.validate_many(files, "dev")
c = collections.Counter(); ex = {}
for k, v in res.items():
    key = "clean" if v is None else "%s/%s" % ("+".join(v[0]) if isinstance(v[0], list) else v[0], v[1])
    c[key] += 1
    if v is not None and key not in ex: ex[key] = (k, v)
for k, n in c.most_common():
    print("%6d  %s   %s" % (n, k, ex.get(k, "")))
print(st, "wall %.1f" % (time.time()-t0))
