#!/bin/bash
# usage: try_mutant_iso.sh <patch.diff> <prop> [more props...]
# Runs the quick checks against a seeded change WITHOUT touching /repo or /verif: a copy of /verif under /tmp/iso/verif whose harness
# depends on a scratch worktree of /repo (/tmp/iso/repo) with the patch applied. (Exploration only; the recorded matrix uses /repo itself.)
P="$(readlink -f "$1")"; shift
mkdir -p /tmp/iso
if [ ! -d /tmp/iso/repo ]; then git -C /repo worktree add -q --detach /tmp/iso/repo HEAD && cp /repo/Cargo.lock /tmp/iso/repo/; fi
( cd /tmp/iso/repo && git checkout -q --detach "$(git -C /repo rev-parse HEAD)" && git checkout -- . && git apply "$P" ) || { echo "patch does not apply"; exit 2; }
rsync -a --delete --exclude out --exclude harness/target --exclude .git /verif/ /tmp/iso/verif/
sed -i 's#path = "/repo"#path = "/tmp/iso/repo"#' /tmp/iso/verif/harness/Cargo.toml
for prop in "$@"; do
  ( cd /tmp/iso/verif && timeout 1800 bin/check "$prop" quick 2>&1 | grep -E 'VIOLATION|KNOWN|TOOL|clause=|runs validated|cases \(' ; echo "rc($prop)=${PIPESTATUS[0]}" )
done
( cd /tmp/iso/repo && git checkout -- . )
