#!/bin/bash
# usage: try_mutant_iso.sh <patch.diff> <prop> [more props...]
# Runs the quick checks against a seeded change WITHOUT touching /repo or /verif: a copy of /verif under $ISO/verif whose harness
# depends on a scratch worktree of /repo ($ISO/repo) with the patch applied. (Exploration only; the recorded matrix uses /repo itself.)
P="$(readlink -f "$1")"; shift
ISO="${ISO:-/tmp/iso}"
mkdir -p $ISO
if [ ! -d $ISO/repo ]; then git -C /repo worktree add -q --detach $ISO/repo HEAD && cp /repo/Cargo.lock $ISO/repo/; fi
( cd $ISO/repo && git checkout -q --detach "$(git -C /repo rev-parse HEAD)" && git checkout -- . && git apply "$P" ) || { echo "patch does not apply"; exit 2; }
rsync -a --delete --exclude out --exclude harness/target --exclude .git ${SRC:-/verif}/ $ISO/verif/
sed -i "s#path = \"/repo\"#path = \"$ISO/repo\"#" $ISO/verif/harness/Cargo.toml
for prop in "$@"; do
  ( cd $ISO/verif && timeout 1800 bin/check "$prop" quick 2>&1 | grep -E 'VIOLATION|KNOWN|TOOL|clause=|runs validated|cases \(' ; echo "rc($prop)=${PIPESTATUS[0]}" )
done
( cd $ISO/repo && git checkout -- . )
