"""Checks for the session-level properties (C03..C17 except the pure wire properties): design
model (TLC, Poster.tla) + conformance (random walks / replayed schedules / targeted families of
the real client, validated by TLC against PosterTrace.tla)."""
import os, sys, json, time, hashlib, glob, collections
import vlib, design

# family = (name, pvh subcommand + args, runs quick, runs thorough)
def walkfam(profile, disc="wake", q=240, t=4000, extra=()):
    return dict(name="%s-%s" % (profile, disc), kind="walk", profile=profile, disc=disc, q=q, t=t, extra=list(extra))

def tlcfam(cfg, q=300, t=6000, depth=70):
    return dict(name="tlc-" + cfg, kind="tlc", cfg=cfg, q=q, t=t, depth=depth)

def genfam(name, gen, q, t, extra=()):
    return dict(name=name, kind="gen", gen=gen, q=q, t=t, extra=list(extra))

PROPS = {
    "C03": dict(fams=[genfam("chunk-exh", "chunk", 1, 1, ["--mode", "exh"]), genfam("chunk-long", "chunk", 1, 1, ["--mode", "long"])],
                modes=("dev", "release"), design=["MC_Framing"]),
    "C04": dict(fams=[genfam("fuzz", "fuzz", 1, 1), genfam("chunk-long", "chunk", 1, 1, ["--mode", "long"]),
                      walkfam("inbound", "wake", 160, 2000), walkfam("cancel", "wake", 160, 2000)], modes=("dev", "release"), design=["MC_Phases"]),
    "C05": dict(fams=[genfam("reasons", "reasons", 1, 1), walkfam("ops"), walkfam("mixed", "wake", 160, 3000), walkfam("ops", "sweep", 80, 1000), walkfam("quota", "wake", 160, 2000), walkfam("wakechunk", "wake", 160, 2000), walkfam("cancel", "wake", 240, 3000), genfam("earlyops", "earlyops", 1, 1), tlcfam("MC_Ops")], design=["MC_Ops"]),
    "C06": dict(fams=[genfam("reasons", "reasons", 1, 1), walkfam("ops"), walkfam("quota", "wake", 160, 3000), walkfam("wake", "wake", 160, 2000), tlcfam("MC_Ops")], design=["MC_Ops"]),
    "C07": dict(fams=[walkfam("inbound"), walkfam("mixed", "wake", 160, 3000), genfam("backlog", "backlog", 1, 1), genfam("manysids", "manysids", 1, 1), genfam("size", "size", 1, 1), genfam("endings", "endings", 1, 1), tlcfam("MC_Inbound")], design=["MC_Inbound"]),
    "C08": dict(fams=[walkfam("inbound"), walkfam("mixed", "wake", 160, 3000), walkfam("wakechunk", "wake", 240, 3000), genfam("reuse", "reuse", 1, 1), genfam("manysids", "manysids", 1, 1), genfam("crossid", "crossid", 1, 1), genfam("oneread", "oneread", 1, 1), tlcfam("MC_Inbound")], design=["MC_Inbound"]),
    "C09": dict(fams=[walkfam("inbound", "wake", 320, 5000), genfam("q2seq", "q2seq", 1, 1), genfam("resume", "resume", 1, 1), genfam("reuse", "reuse", 1, 1), genfam("manysids", "manysids", 1, 1), genfam("crossid", "crossid", 1, 1), tlcfam("MC_Inbound")], design=["MC_Inbound"]),
    "C10": dict(fams=[genfam("reasons", "reasons", 1, 1), walkfam("quota", "wake", 320, 5000), walkfam("ops", "wake", 160, 2000), walkfam("cancel", "wake", 160, 2000), genfam("quota-fill", "quotafill", 1, 1), genfam("reconn", "reconn", 1, 1), tlcfam("MC_Ops"), tlcfam("MC_Reconn")], design=["MC_Ops", "MC_Reconn"]),
    "C11": dict(fams=[genfam("wrap", "wrap", 1, 1), genfam("sidwrap", "sidwrap", 1, 1), genfam("earlyops", "earlyops", 1, 1), genfam("badopts", "badopts", 1, 1), genfam("q0wrap", "q0wrap", 1, 1), genfam("threads", "threads", 1, 1), walkfam("ops", "wake", 80, 1000), tlcfam("MC_Ids"), tlcfam("MC_Early")], design=["MC_Ids", "MC_Early"]),
    "C12": dict(fams=[genfam("size", "size", 1, 1), genfam("reconn", "reconn", 1, 1), tlcfam("MC_Ops"), tlcfam("MC_Reconn"), tlcfam("MC_Early")], design=["MC_Ops", "MC_Reconn", "MC_Early"]),
    "C13": dict(fams=[walkfam("life", "wake", 400, 6000), genfam("first", "first", 1, 1), genfam("endings", "endings", 1, 1), genfam("reuse", "reuse", 1, 1), tlcfam("MC_Life")], design=["MC_Life"]),
    "C14": dict(fams=[walkfam("life", "wake", 400, 6000), walkfam("mixed", "wake", 160, 3000), genfam("endings", "endings", 1, 1), tlcfam("MC_Life")], design=["MC_Life", "MC_Live"]),
    "C15": dict(fams=[walkfam("cancel", "wake", 400, 6000), walkfam("mixed", "wake", 160, 3000), tlcfam("MC_Life"), tlcfam("MC_Ops"), tlcfam("MC_Inbound")], design=["MC_Life"]),
    "C16": dict(fams=[walkfam("wake", "wake", 160, 2000), walkfam("wake", "sweep", 160, 2000), walkfam("wake", "spur", 160, 2000),
                      walkfam("wakechunk", "wake", 240, 3000), walkfam("wakechunk", "sweep", 160, 2000),
                      walkfam("life", "sweep", 160, 2000), genfam("disc-compare", "disccmp", 1, 1),
                      genfam("chunk-exh", "chunk", 1, 1, ["--mode", "exh", "--sweep", "1"]), genfam("blockcmp", "blockcmp", 1, 1),
                      tlcfam("MC_Wake")], design=["MC_Wake", "MC_Live"]),
    "C17": dict(fams=[genfam("resume", "resume", 1, 1), genfam("reconn", "reconn", 1, 1), tlcfam("MC_Resume"), tlcfam("MC_Reconn")], design=["MC_Resume", "MC_Reconn"]),
}

RELEVANT = {
    "C03": ("at least one inbound packet split across two or more reads", lambda s: s["splitpk"] >= 1),
    "C04": ("at least one malformed / unexpected / truncated input or transport fault injected", lambda s: s["garbage"] + s["faults"] >= 1),
    "C05": ("at least two operations completed by an acknowledgement", lambda s: s["ackdone"] >= 2),
    "C06": ("at least one QoS>0 publish finished its handshake", lambda s: s["pubdone"] >= 1),
    "C07": ("at least one stream item yielded", lambda s: s["items"] >= 1),
    "C08": ("at least one inbound QoS>0 PUBLISH or PUBREL", lambda s: s["inq"] >= 1),
    "C09": ("at least one QoS 2 PUBLISH re-sent with an unreleased identifier", lambda s: s["redeliv"] >= 1),
    "C10": ("send quota exhausted at least once (QuotaExceeded observed) or R reached", lambda s: s["quotaex"] >= 1),
    "C11": ("at least 3 identifier-consuming packets written", lambda s: s["idpk"] >= 3),
    "C12": ("a Maximum Packet Size was announced and at least one request handled", lambda s: s["M"] > 0 and s["calls"] >= 1),
    "C13": ("connect()/run() returned", lambda s: s["ret"] >= 1),
    "C14": ("context dropped and an operation or stream polled afterwards", lambda s: s["afterdrop"] >= 1),
    "C15": ("at least one operation future or stream dropped while pending", lambda s: s["cancels"] >= 1),
    "C16": ("at least one poll without a wake-up", lambda s: s["spur"] >= 1),
    "C17": ("a disconnection recorded and the client connected again", lambda s: s["reconn"] >= 1),
}


def run_stats(files):
    """Per run: signature (hash of the event-kind sequence) and counters used by the relevance rules."""
    out = {}
    for f in files:
        cur = None
        with open(f) as fh:
            for line in fh:
                try:
                    e = json.loads(line)
                except ValueError:
                    continue
                k = e.get("e")
                if k == "reset":
                    cur = dict(h=hashlib.sha1(), M=e.get("M", 0), fam=e.get("fam"), run=e.get("run"), dropped=False, n=0,
                               **{x: 0 for x in ("ackdone", "pubdone", "items", "inq", "redeliv", "quotaex", "idpk", "calls", "ret",
                                                  "afterdrop", "cancels", "spur", "reconn", "splitpk", "garbage", "faults")})
                    cur["q2open"] = set()
                    out[(f, e.get("run"), e.get("fam"))] = cur
                    continue
                if cur is None or k == "end":
                    continue
                cur["n"] += 1
                sig = k
                if k == "pollop":
                    r = e["res"]
                    sig += r["r"] + r["kind"]
                    if r["r"] in ("ok", "err") and r["kind"] not in ("ContextExited", "QuotaExceeded", "MaximumPacketSizeExceeded"):
                        cur["ackdone"] += 1
                    if r["kind"] == "QuotaExceeded":
                        cur["quotaex"] += 1
                    if e.get("woken") == 0:
                        cur["spur"] += 1
                    if cur["dropped"]:
                        cur["afterdrop"] += 1
                elif k == "pollst":
                    sig += e["res"]["r"]
                    if e["res"]["r"] == "item":
                        cur["items"] += 1
                    if e.get("woken") == 0:
                        cur["spur"] += 1
                    if cur["dropped"]:
                        cur["afterdrop"] += 1
                elif k == "ctxb":
                    if e.get("woken") == 0:
                        cur["spur"] += 1
                elif k == "ctxe":
                    sig += e["res"]["r"] + e["res"]["kind"]
                    if e["res"]["r"] == "ret":
                        cur["ret"] += 1
                elif k == "first":
                    cur["ret"] += 1
                    sig += str(e.get("inj")) + str(e.get("res", {}).get("kind"))
                elif k == "wr":
                    p = e["pk"]
                    sig += p["t"] + str(p["qos"])
                    if p["t"] in ("SUBSCRIBE", "UNSUBSCRIBE") or (p["t"] == "PUBLISH" and p["qos"] > 0):
                        cur["idpk"] += 1
                elif k == "inject":
                    for p in e["pks"]:
                        sig += p["t"] + str(p["qos"]) + str(p["rc"] >= 128)
                        if p["t"] == "PUBREL" or (p["t"] == "PUBLISH" and p["qos"] > 0):
                            cur["inq"] += 1
                        if p["t"] == "PUBLISH" and p["qos"] == 2:
                            if p["id"] in cur["q2open"]:
                                cur["redeliv"] += 1
                            cur["q2open"].add(p["id"])
                        if p["t"] == "PUBREL":
                            cur["q2open"].discard(p["id"])
                        if p["t"] in ("PUBACK", "PUBCOMP") or (p["t"] == "PUBREC" and p["rc"] >= 128):
                            cur["pubdone"] += 1
                        if p["t"] == "GARBAGE":
                            cur["garbage"] += 1
                    if not e["pks"]:
                        cur["splitpk"] += 1
                    if e.get("bad"):
                        cur["garbage"] += 1
                elif k == "call":
                    sig += e["kind"] + str(e["qos"]) + ":%d:%d:%s:%d" % (e["tl"], e["pl"], e["fl"], cur["M"])
                    cur["calls"] += 1
                elif k == "drop":
                    sig += e["task"]
                    if e["task"] in ("op", "st"):
                        cur["cancels"] += 1
                    if e["task"] == "ctx":
                        cur["dropped"] = True
                elif k in ("eof", "rderr"):
                    cur["faults"] += 1
                elif k == "wrmode":
                    sig += e["m"]
                    if e["m"] in ("err", "zero"):
                        cur["faults"] += 1
                elif k == "reconnect":
                    cur["reconn"] += 1
                elif k == "twr":
                    sig += e["t"]
                    if e["id"]:
                        cur["idpk"] += 1
                elif k == "fuzz":
                    cur["garbage"] += 1
                    sig += e["phase"] + e["case"] + e["fault"] + e["o1"] + e["k1"] + e["o2"] + e["hex"]
                elif k == "disccmp":
                    cur["spur"] += 1
                cur["h"].update(sig.encode())
    for v in out.values():
        v["sig"] = v.pop("h").hexdigest()
        v.pop("q2open")
    return out


def gen_family(bins, fam, tier, d, mode="dev"):
    """Runs the harness for one family; returns list of (trace file, script file)."""
    n = fam["q"] if tier == "quick" else fam["t"]
    files = []
    seed = vlib.seed()
    if fam["kind"] == "tlc":
        # spec -> code: behaviours of the design model, replayed into the real client
        cfgname = fam["cfg"] + ("_quick" if os.path.exists(os.path.join(vlib.SPEC, fam["cfg"] + "_quick.cfg")) else "")
        sp = os.path.join(d, "%s.scripts" % fam["name"])
        design.export_scripts(cfgname, n, fam["depth"], seed, sp, fam["name"])
        t = os.path.join(d, "%s-%s.ndjson" % (fam["name"], mode))
        vlib.pvh(bins[mode], ["script", "--in", sp, "--out", t])
        return [(t, sp)]
    if fam["kind"] == "walk":
        shards = 8 if n >= 64 else 1
        per = max(1, n // shards)
        for i in range(shards):
            t = os.path.join(d, "%s-%s-%d.ndjson" % (fam["name"], mode, i))
            s = os.path.join(d, "%s-%s-%d.scripts" % (fam["name"], mode, i))
            vlib.pvh(bins[mode], ["walk", "--profile", fam["profile"], "--disc", fam["disc"], "--runs", per, "--first", i * per,
                                  "--seed", seed, "--out", t, "--scripts", s] + fam["extra"])
            files.append((t, s))
    else:
        shards = 8
        import concurrent.futures
        def one(i):
            t = os.path.join(d, "%s-%s-%d.ndjson" % (fam["name"], mode, i))
            s = os.path.join(d, "%s-%s-%d.scripts" % (fam["name"], mode, i))
            try:
                vlib.pvh(bins[mode], [fam["gen"], "--tier", tier, "--seed", seed, "--shard", i, "--shards", shards, "--out", t, "--scripts", s] + fam["extra"])
            except vlib.HarnessCrash as e:
                # the process died inside the code under test (e.g. stack overflow): the completed runs are on disk;
                # the case after the last completed one is recorded as a run that ends with an `abort` line
                done = sum(1 for _ in open(s)) if os.path.exists(s) else 0
                with open(t, "a") as f:
                    f.write(json.dumps({"e": "reset", "run": 900000 + i, "fam": fam["name"], "R": 1, "M": 0, "sei": 0, "seik": "zero",
                                        "disc": "wake", "mode": mode, "ok": 1, "recon": 0}) + "\n")
                    f.write(json.dumps({"e": "abort", "why": " | ".join(e.args[0]) if e.args else "", "shard": i, "completed": done}) + "\n")
                    f.write(json.dumps({"e": "end"}) + "\n")
            return (t, s)
        with concurrent.futures.ThreadPoolExecutor(max_workers=8) as ex:
            for t, s in ex.map(one, range(shards)):
                if os.path.getsize(t) > 20:
                    files.append((t, s))
    return files


def regress_files(bins, prop, d):
    files = []
    for p in sorted(glob.glob(os.path.join(vlib.VERIF, "regress", prop + "-*.json"))):
        name = os.path.basename(p)[:-5]
        t = os.path.join(d, "regress-%s.ndjson" % name)
        vlib.pvh(bins["dev"], ["script", "--in", p, "--out", t])
        files.append((t, p))
    return files


def run(prop, tier):
    t0 = time.time()
    cfg = PROPS[prop]
    modes = cfg.get("modes", ("dev",))
    bins = vlib.build(modes)
    d = vlib.outdir(prop)
    for f in glob.glob(os.path.join(d, "*")):
        os.remove(f)
    findings = vlib.load_findings()
    # 1. design model
    dres = design.run(prop, cfg.get("design", []), tier)
    unbounded = design.apalache_quota() if prop == "C10" else None
    # 2. conformance
    pairs = regress_files(bins, prop, d)
    nreg = len(pairs)
    for fam in cfg["fams"]:
        for mode in modes:
            pairs += gen_family(bins, fam, tier, d, mode)
    script_of = dict(pairs)
    files = [p[0] for p in pairs]
    verdicts, tstats = vlib.validate_many(files, prop, workers=12)
    stats = run_stats(files)
    rule, pred = RELEVANT[prop]
    viol, known, tainted, tool = [], [], 0, []
    for key, v in sorted(verdicts.items(), key=lambda kv: (kv[0][0], kv[0][1])):
        if v is None:
            continue
        tags = v[0] if isinstance(v[0], list) else [v[0]]
        if str(key[2]).startswith("chunk") and ("C03" not in tags or "C04" not in tags):
            # the chunking families carry benign traffic that passes with whole-packet reads: any divergence there
            # is a dependence on how the byte stream was split, whatever clause noticed it first (C03) - and a client
            # that well-formed bytes, cut in some way, wedge or stop (C04)
            tags = list(tags) + [t for t in ("C03", "C04") if t not in tags]
            v = [tags] + list(v[1:])
        if "TOOL" in tags:
            tool.append((key, v))
        elif prop not in tags:
            tainted += 1
        else:
            f = vlib.match_finding(findings, prop, v)
            if f:
                known.append((key, v, f))
            else:
                viol.append((key, v))
    if tool:
        print("TOOL-ERROR: trace line without a specification action:", tool[0])
        return 2
    if dres and dres.get("violation"):
        # the design model does not depend on /repo: a violation there is an inconsistency of the specification itself
        print("TOOL-ERROR: design configuration %s violates %s (see %s)" % (dres["cfg"], dres["violation"], dres.get("replay")))
        return 2
    evaluated = [k for k in verdicts]
    clean_or_own = [k for k, v in verdicts.items() if v is None or prop in (v[0] if isinstance(v[0], list) else [v[0]])]
    sigs = set()
    for k in clean_or_own:
        st = stats.get(k)
        if st and pred(st):
            sigs.add(st["sig"])
    samples = []
    for k in list(verdicts)[:3]:
        lines = vlib.extract_run(k[0], k[1])
        samples.append({"family": k[2], "run": k[1], "lines": len(lines), "head": [json.loads(x) for x in lines[1:7]]})
    cov = {
        "states": (dres or {}).get("states", 0) + tstats["states"],
        "transitions": (dres or {}).get("transitions", 0) + tstats["states"],
        "traces_validated_against_impl": len(evaluated),
        "samples": samples,
        "evaluations": len(evaluated),
        "distinct_nontrivial": len(sigs),
        "rule": "runs of the real client (random walks / targeted families / regression scripts) validated against PosterTrace.tla; "
                "distinct = distinct sequence of event kinds; non-trivial = " + rule,
        "design_model": dres or {"note": "no design configuration run"},
        "trace_validation_states": tstats["states"],
        "regression_scripts": nreg,
        "tainted_runs_other_property": tainted,
        "families": [f["name"] for f in cfg["fams"]],
        "build_modes": list(modes),
    }
    if unbounded:
        cov["unbounded_inductive_invariant"] = unbounded
    printed = set()
    for key, v, f in known:
        if f["id"] not in printed:
            print("KNOWN-FINDING: property=%s %s" % (prop, f["what"]))
            printed.add(f["id"])
    rc = 0
    if viol:
        key, v = viol[0]
        if key[0] == "design":
            path = dres.get("replay", "")
        else:
            path = vlib.write_replay(prop, key[2], key[0], script_of.get(key[0]), key[1], v)
        print("VIOLATION property=%s replay=%s" % (prop, path))
        print("  clause=%s line=%s detail=%s (%d violating runs)" % (v[1], v[2], json.dumps(v[3]), len(viol)))
        rc = 1
    vlib.write_evidence(prop, tier, "model_checking", cov, time.time() - t0, len(viol),
                        ["the mock transport, manual executor and independent MQTT codec of /verif/harness are correct",
                         "TLC explores every interleaving of the actor's unobservable choices for each recorded run",
                         "bounded: the design model is exhaustive only for the constants of its configuration"])
    print("%s %s: %d runs validated (%d distinct non-trivial), %d tainted by other properties, %d known, %d violations, %.0fs"
          % (prop, tier, len(evaluated), len(sigs), tainted, len(known), len(viol), time.time() - t0))
    return rc


def replay(path):
    rec = json.load(open(path))
    prop = rec["property"]
    bins = vlib.build()
    d = vlib.outdir("replay-tmp")
    # (i) recorded trace
    t1 = os.path.join(d, "recorded.ndjson")
    with open(t1, "w") as f:
        f.write("\n".join(rec["trace"]) + "\n" + json.dumps({"e": "end"}) + "\n")
    files = [t1]
    # (ii) fresh execution of the schedule on the current tree
    if rec.get("script"):
        sp = os.path.join(d, "script.json")
        json.dump(rec["script"], open(sp, "w"))
        t2 = os.path.join(d, "fresh.ndjson")
        vlib.pvh(bins["dev"], ["script", "--in", sp, "--out", t2])
        files.append(t2)
    verdicts, _ = vlib.validate_many(files, "replay", workers=2)
    rc = 0
    for k, v in verdicts.items():
        print(os.path.basename(k[0]), "run", k[1], "->", "explained by the reference" if v is None else v)
        if k[0].endswith("fresh.ndjson") and v is not None and prop in (v[0] if isinstance(v[0], list) else [v[0]]):
            rc = 1
    return rc
