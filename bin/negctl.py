#!/usr/bin/env python3
"""Negative controls at design level: each named deviation must make TLC report a violation of the
invariant of the property it is listed under (and the reference, Dev = {}, must not)."""
import subprocess, sys, os, re, time, json
SPEC = "/verif/spec"
CONTROLS = [
    # deviation, base cfg, expected invariant
    ("AckOnlyWithSid", "MC_Inbound_quick", "Inv_C08"),
    ("WrongAckType", "MC_Inbound_quick", "Inv_C08"),
    ("NoDedupe", "MC_Inbound_quick", "Inv_C09"),
    ("LastSidOnly", "MC_Inbound_quick", "Inv_C07"),
    ("FanOutToAll", "MC_Inbound_quick", "Inv_C07"),
    ("NoFreeOnFailedPubrec", "MC_Ops_quick", "Inv_C10"),
    ("QuotaOffByOne", "MC_Ops_quick", "Inv_C10"),
    ("QuotaResetOnResume", "MC_Reconn_quick", "Inv_C10"),
    ("StaleMsz", "MC_Reconn_quick", "Inv_C12"),
    ("ResetCountersOnConnack", "MC_Early_quick", "Inv_C11"),
    ("LimitOnlyFromPlainConnack", "MC_Early_quick", "Inv_C12"),
    ("CompleteByTypeOnly", "MC_Ops_quick", "Inv_C05"),
    ("DupOnFirst", "MC_Ops_quick", "Inv_C06"),
    ("ZeroIdOnWrap", "MC_Ids_quick", "Inv_C11"),
    ("SizeCheckAfterQuota", "MC_Ops_quick", "Inv_C12"),
    ("SizeLimitOffByOne", "MC_Ops_quick", "Inv_C12"),
    ("InternalErrorOnDroppedOp", "MC_Ops_quick", "Inv_C15"),
    ("NoReturnOnDisconnect", "MC_Life_quick", "Inv_C13"),
    ("ReturnOnSuback", "MC_Life_quick", "Inv_C13"),
    ("KeepSenderOnDrop", "MC_Life_quick", "Inv_C14"),
    ("NoWakeOnComplete", "MC_Wake_quick", "NoLostWakeup"),
    ("InvertedExpiry", "MC_Resume_quick", "Inv_C17"),
    ("KeepPublishAfterPubrec", "MC_Resume_quick", "Inv_C17"),
    ("ResendReversed", "MC_Resume_quick", "Inv_C17"),
    ("ResendWithoutDup", "MC_Resume_quick", "Inv_C17"),
    ("KeepSenderOnDrop", "MC_Live", "Live_C14"),
    ("NoWakeOnComplete", "MC_Live", "Live_C16"),
    ("PendingAfterShortRead", "MC_Framing_quick", "NoLostWakeup"),
    ("EofOnZeroRead", "MC_Framing_quick", "NoEarlyEnd"),
]
def run(dev, cfg, inv):
    module = "Framing.tla" if cfg.startswith("MC_Framing") else "Poster.tla"
    src = open(os.path.join(SPEC, cfg + ".cfg")).read()
    tmp = "NEG_%s" % dev
    src = src.replace("Dev = {}", 'Dev = {"%s"}' % dev)
    # a deviation is only required to break its own invariant / liveness property: check that one only
    if inv.startswith("Live_") or inv == "AllEmitted":
        src = re.sub(r"INVARIANTS.*", "INVARIANTS TypeOK", src)
        src = re.sub(r"PROPERTIES.*", "PROPERTIES " + inv, src)
    else:
        src = re.sub(r"INVARIANTS.*", "INVARIANTS " + inv, src)
        src = re.sub(r"PROPERTIES.*\n", "", src)
    open(os.path.join(SPEC, tmp + ".cfg"), "w").write(src)
    md = "/verif/out/md/" + tmp
    t0 = time.time()
    r = subprocess.run(["timeout", "900", "tlc", "-workers", "16", "-metadir", md, "-cleanup", "-noGenerateSpecTE", "-config", tmp + ".cfg", module],
                       cwd=SPEC, stdout=subprocess.PIPE, stderr=subprocess.STDOUT, text=True)
    os.remove(os.path.join(SPEC, tmp + ".cfg"))
    subprocess.run(["rm", "-rf", md])
    m = re.search(r"Invariant (\S+) is violated", r.stdout) or re.search(r"Temporal property (\S+) was violated", r.stdout)
    depth = len(re.findall(r"^State \d+:", r.stdout, re.M))
    return (m.group(1) if m else None), depth, time.time() - t0
ok = True
res = []
for dev, cfg, inv in CONTROLS:
    if len(sys.argv) > 1 and dev not in sys.argv[1:]:
        continue
    got, depth, wall = run(dev, cfg, inv)
    good = got == inv
    ok &= good
    res.append({"deviation": dev, "cfg": cfg, "expected": inv, "violated": got, "trace_len": depth, "wall_s": round(wall, 1)})
    print("%-28s %-18s expected %-14s got %-14s len %3d %5.1fs %s" % (dev, cfg, inv, got, depth, wall, "ok" if good else "MISSING"))
os.makedirs("/verif/out", exist_ok=True)
json.dump(res, open("/verif/out/negctl.json", "w"), indent=1)
sys.exit(0 if ok else 1)
