#!/usr/bin/env python3
"""For every kept seeded change: apply it to /repo, run the quick check of the property it breaks, undo it.
Records the outcome in seeded/<id>/meta.json and prints a table. (Never leaves /repo modified.)"""
import json, os, subprocess, sys, glob, time
only = sys.argv[1:]
rows = []
for d in sorted(glob.glob("/verif/seeded/*/")):
    sid = os.path.basename(d.rstrip("/"))
    if only and sid not in only and not any(sid.startswith(o) for o in only):
        continue
    meta = json.load(open(d + "meta.json"))
    prop = meta["property"]
    subprocess.run(["git", "-C", "/repo", "checkout", "--", "."], check=True)
    a = subprocess.run(["git", "-C", "/repo", "apply", d + "patch.diff"], capture_output=True, text=True)
    if a.returncode != 0:
        rows.append((sid, prop, "patch does not apply", 0))
        print("%-55s %s PATCH DOES NOT APPLY (re-base it): %s" % (sid, prop, a.stderr.strip()[:120]), flush=True)
        continue
    t0 = time.time()
    try:
        r = subprocess.run(["bin/check", prop, "quick"], cwd="/verif", capture_output=True, text=True, timeout=3000)
        out = r.stdout
        rc = r.returncode
    finally:
        subprocess.run(["git", "-C", "/repo", "checkout", "--", "."], check=True)
    viol = [l for l in out.splitlines() if l.startswith("VIOLATION") or l.startswith("  clause") or l.startswith("  ")]
    meta["checks_run"] = ["bin/check %s quick (patch applied with git -C /repo apply, undone with git -C /repo checkout -- .)" % prop]
    meta["detected_by"] = [prop] if rc == 1 else []
    meta["detection_output"] = viol[:3]
    json.dump(meta, open(d + "meta.json", "w"), indent=1)
    rows.append((sid, prop, "DETECTED" if rc == 1 else "missed rc=%d" % rc, time.time() - t0))
    print("%-55s %s %-10s %4.0fs %s" % (sid, prop, rows[-1][2], rows[-1][3], (viol[1].strip() if len(viol) > 1 else "")[:90]), flush=True)
st = subprocess.run(["git", "-C", "/repo", "status", "--short"], capture_output=True, text=True).stdout
print("repo status after:", st.strip() or "clean")
