#!/usr/bin/env python3
"""Regenerates /verif/MANIFEST.json from the tables below (kept valid at all times)."""
import json, os, subprocess
V = "/verif"
props = {json.loads(l)["id"]: json.loads(l) for l in open(V + "/properties.jsonl")}
hook_commits = ["d83df2a"]

# property -> (ready?, technique, level text, level note, design_ref)
T = {}
def reg(p, technique, text, note, ref, category="model_checking"):
    T[p] = dict(technique=technique, text=text, note=note, ref=ref, category=category)

exec(open(V + "/bin/manifest_table.py").read())

checks, na = [], []
for p in sorted(props):
    if p in T:
        t = T[p]
        checks.append({
            "property_id": p,
            "quick_cmd": "bin/check %s quick" % p,
            "thorough_cmd": "bin/check %s thorough" % p,
            "evidence_file": "/verif/evidence/%s.json" % p,
            "replay_cmd_template": "bin/check replay {path}",
            "engine": "tlc",
            "level_claimed": {"category": t.get("category", "model_checking"), "text": t["text"], "design_ref": t["ref"]},
            "level_note": t["note"],
            "technique": t["technique"],
        })
    else:
        na.append({"property_id": p, "reason": NA.get(p, "check under construction (see DESIGN.md section 12); the specification is meant to cover it")})
m = {
    "version": 1,
    "setup_cmd": "cd /verif/harness && cargo build --offline && cargo build --offline --release",
    "hooks": {"guard": "poster_verif",
              "enable": "--cfg poster_verif via /verif/harness/.cargo/config.toml (the harness has a path dependency on /repo and rebuilds it from the working tree)",
              "baseline_off_cmd": "cd /repo && cargo test --workspace --no-fail-fast --offline",
              "source_commits": hook_commits, "add_only": True},
    "engines": [
        {"name": "tlc", "path": "/verif/spec", "serves_properties": sorted(T), "kind_free_text": "TLA+ specifications (PosterCore/Poster/PosterTrace/Framing/MqttWire) checked with TLC: exhaustive design-model checking plus trace validation of the real client"},
        {"name": "pvh", "path": "/verif/harness", "serves_properties": sorted(T), "kind_free_text": "Rust simulation harness: real Context/ContextHandle over a mock transport with a manual executor; emits NDJSON traces, replays TLC schedules"},
    ],
    "checks": checks,
    "notes": "All checks are driven by bin/check; see DESIGN.md. Exit 2 = tool error.",
    "not_applicable": na,
}
json.dump(m, open(V + "/MANIFEST.json", "w"), indent=1)
print(len(checks), "checks;", len(na), "not yet claimed")
