#!/usr/bin/env python3
import json,sys
sys.path.insert(0,'/verif/bin')
import vlib
sf,run,name,note=sys.argv[1],int(sys.argv[2]),sys.argv[3],sys.argv[4]
s=vlib.extract_script(sf,run)
s['note']=note
s['steps'][0]['fam']='regress-'+name.split('-')[0]
s['steps'][0]['run']=0
s['run']=0
json.dump(s,open('/verif/regress/%s.json'%name,'w'))
print(name,len(s['steps']),'steps')
