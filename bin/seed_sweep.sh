#!/bin/bash
# usage: seed_sweep.sh <seed>...   runs every quick check on the UNCHANGED tree with other seeds, in the isolated copy (/tmp/iso),
# to hunt for false alarms that the default seed does not show. Prints one line per (seed, property).
mkdir -p /tmp/iso
if [ ! -d /tmp/iso/repo ]; then git -C /repo worktree add -q --detach /tmp/iso/repo HEAD && cp /repo/Cargo.lock /tmp/iso/repo/; fi
( cd /tmp/iso/repo && git checkout -q --detach "$(git -C /repo rev-parse HEAD)" && git checkout -- . )
rsync -a --delete --exclude out --exclude harness/target --exclude .git /verif/ /tmp/iso/verif/
sed -i 's#path = "/repo"#path = "/tmp/iso/repo"#' /tmp/iso/verif/harness/Cargo.toml
for seed in "$@"; do
  for p in C01 C02 C03 C04 C05 C06 C07 C08 C09 C10 C11 C12 C13 C14 C15 C16 C17; do
    out=$(cd /tmp/iso/verif && VERIF_SEED=$seed timeout 3000 bin/check $p quick 2>&1); rc=$?
    echo "seed=$seed $p rc=$rc :: $(echo "$out" | grep -E 'VIOLATION|TOOL|clause=|quick:' | tr '\n' ' ' | cut -c1-260)"
  done
done
