#!/usr/bin/env python3
"""keep_mutant.py <worktree> <seeded-id> <property> <demo-file> <needs...>  -> copies into /verif/seeded/<id>/"""
import sys, os, shutil, json
w, sid, prop, demo = sys.argv[1:5]
needs = " ".join(sys.argv[5:])
d = "/verif/seeded/%s" % sid
os.makedirs(d, exist_ok=True)
shutil.copy(os.path.join(w, "patch.diff"), d + "/patch.diff")
shutil.copy(os.path.join(w, "tests", demo), d + "/" + demo)
if os.path.exists(os.path.join(w, "NOTES.md")):
    shutil.copy(os.path.join(w, "NOTES.md"), d + "/NOTES.md")
meta = {"id": sid, "property": prop, "needs_to_manifest": needs, "origin": "independent sub-agent given only the property text and a scratch worktree",
        "confirmed": {"existing_tests_pass_with_change": True, "demo_fails_with_change": True, "demo_passes_without_change": True,
                      "how": "bin/confirm_mutant.sh <worktree> <demo> in the scratch worktree"},
        "checks_run": [], "detected_by": []}
json.dump(meta, open(d + "/meta.json", "w"), indent=1)
print("kept", d)
