#!/usr/bin/env python3
"""development helper: random walks of one profile -> TLC validation -> aggregated verdicts"""
import sys, os, json, collections
sys.path.insert(0, os.path.dirname(__file__))
import vlib
prof = sys.argv[1]; runs = int(sys.argv[2]); seed = int(sys.argv[3]) if len(sys.argv) > 3 else 1
extra = sys.argv[4:]
bins = vlib.build()
d = vlib.outdir("dev")
nsh = 8
files = []
for i in range(nsh):
    t = os.path.join(d, "w%d.ndjson" % i); s = os.path.join(d, "w%d.scripts" % i)
    vlib.pvh(bins["dev"], ["walk", "--profile", prof, "--runs", runs // nsh, "--first", i * (runs // nsh), "--seed", seed, "--out", t, "--scripts", s] + extra)
    files.append(t)
res, st = vlib.validate_many(files, "dev")
c = collections.Counter()
ex = {}
for k, v in res.items():
    key = "clean" if v is None else "%s/%s" % ("+".join(v[0]) if isinstance(v[0], list) else v[0], v[1])
    c[key] += 1
    if v is not None and key not in ex: ex[key] = (k, v)
for k, n in c.most_common():
    print("%6d  %s   %s" % (n, k, ex.get(k, "")))
print(st)
