"""Checks for the wire-level properties C01/C02: the MQTT 5 wire semantics are specified in TLA+
(MqttWire.tla); TLC enumerates the case spaces (WireGenTx / WireGenRx) and writes, per case, what the
specification says must come out; the harness drives every case through the real client."""
import os, sys, json, time, subprocess, glob, concurrent.futures, hashlib
import vlib, session_checks

PROPS = {"C01": dict(gen="WireGenTx", cmd="wiretx", prefix="tx_"),
         "C02": dict(gen="WireGenRx", cmd="wirerx", prefix="rx_")}


def tlc_generate(module, outdir, tier):
    env = dict(os.environ, OUTDIR=outdir, TIER=tier, JAVA_TOOL_OPTIONS="-Xss256m -Xmx8g")
    md = os.path.join(vlib.OUT, "md", "%s.%d" % (module, os.getpid()))
    cmd = ["timeout", "1500", "tlc", "-workers", "1", "-metadir", md, "-cleanup", "-noGenerateSpecTE", "-config", module + ".cfg", module + ".tla"]
    t0 = time.time()
    r = subprocess.run(cmd, cwd=vlib.SPEC, env=env, stdout=subprocess.PIPE, stderr=subprocess.STDOUT, text=True)
    import shutil
    shutil.rmtree(md, ignore_errors=True)
    if "Model checking completed. No error has been found" not in r.stdout:
        sys.stderr.write(r.stdout[-3000:])
        raise vlib.ToolError("TLC failed to enumerate %s" % module)
    return time.time() - t0


def run(prop, tier):
    t0 = time.time()
    cfg = PROPS[prop]
    modes = ("dev", "release") if tier == "thorough" else ("dev",)
    bins = vlib.build(modes)
    d = vlib.outdir(prop)
    for f in glob.glob(os.path.join(d, "*")):
        os.remove(f)
    gen_wall = tlc_generate(cfg["gen"], d, tier)
    case_files = sorted(glob.glob(os.path.join(d, cfg["prefix"] + "*.ndjson")))
    ncases = sum(sum(1 for _ in open(f)) for f in case_files)
    if ncases == 0:
        raise vlib.ToolError("no cases generated")
    # how many cases sit exactly on a step of the Remaining Length encoding (written packets only)
    steps = {129: 127, 131: 128, 16386: 16383, 16388: 16384, 2097155: 2097151, 2097157: 2097152}
    step_hits = {}
    if prop == "C01":
        for f in case_files:
            for line in open(f):
                e = json.loads(line)["e"]
                for x in [e.get("len", 0)] + list(e.get("lens", [])):
                    if x in steps:
                        step_hits[str(steps[x])] = step_hits.get(str(steps[x]), 0) + 1
        missing = [str(v) for v in steps.values() if str(v) not in step_hits]
        if missing:
            raise vlib.ToolError("generator no longer reaches remaining length(s) %s" % ",".join(missing))
    shards = 8
    results = []
    def one(args):
        mode, i = args
        out = os.path.join(d, "res-%s-%d.ndjson" % (mode, i))
        vlib.pvh(bins[mode], [cfg["cmd"], "--dir", d, "--shard", i, "--shards", shards, "--out", out])
        return out
    with concurrent.futures.ThreadPoolExecutor(max_workers=8) as ex:
        outs = list(ex.map(one, [(m, i) for m in modes for i in range(shards)]))
    fails, tool, n, kinds = [], [], 0, {}
    samples = []
    for o in outs:
        for line in open(o):
            r = json.loads(line)
            n += 1
            k = r.get("kind") or r.get("t")
            kinds[k] = kinds.get(k, 0) + 1
            if not r["ok"]:
                (tool if str(r.get("why", "")).startswith("TOOL") else fails).append(r)
            elif len(samples) < 4 and r["i"] % 997 == 3:
                samples.append(r)
    if tool:
        print("TOOL-ERROR:", tool[0]["why"])
        return 2
    # C01 also says: the wire is a concatenation of whole packets in submission order however the transport
    # fragments or delays writes -> random walks with partial / blocked writes, validated by PosterTrace
    extra_runs, extra_viol, tstats = 0, [], {"states": 0}
    if prop == "C01":
        pairs = []
        # blocked / partial writes alone, and mixed with cancellations (a caller giving up while its packet is half written)
        for fam in (session_checks.walkfam("wake", "wake", 160, 2000), session_checks.walkfam("mixed", "wake", 160, 2000),
                    session_checks.genfam("cutwrite", "cutwrite", 1, 1)):
            pairs += session_checks.gen_family(bins, fam, tier, d)
        verdicts, tstats = vlib.validate_many([p[0] for p in pairs], prop, workers=8)
        extra_runs = len(verdicts)
        script_of = dict(pairs)
        for key, v in verdicts.items():
            if v is not None and "C01" in (v[0] if isinstance(v[0], list) else [v[0]]):
                extra_viol.append((key, v, script_of.get(key[0])))
    findings = vlib.load_findings()
    known, viol = [], []
    for r in fails:
        f = None
        for kf in findings:
            if kf["property"] == prop and kf.get("status") == "open" and kf["clause"] in r["why"]:
                f = kf
        (known if f else viol).append((r, f))
    printed = set()
    for r, f in known:
        if f["id"] not in printed:
            print("KNOWN-FINDING: property=%s %s" % (prop, f["what"]))
            printed.add(f["id"])
    rc = 0
    if viol or extra_viol:
        os.makedirs(os.path.join(vlib.OUT, "replay"), exist_ok=True)
        if viol:
            r = viol[0][0]
            path = os.path.join(vlib.OUT, "replay", "%s-case-%d.json" % (prop, r["i"]))
            json.dump(r, open(path, "w"), indent=1)
            why = r["why"]
        else:
            key, v, sp = extra_viol[0]
            path = vlib.write_replay(prop, key[2], key[0], sp, key[1], v)
            why = v[1]
        print("VIOLATION property=%s replay=%s" % (prop, path))
        print("  %s (%d violating cases)" % (why, len(viol) + len(extra_viol)))
        rc = 1
    if not samples:
        samples = [{"note": "no sample picked"}]
    cov = {
        "evaluations": n + extra_runs,
        "distinct_nontrivial": ncases,
        "rule": "cases enumerated by TLC from %s.tla (every case is a distinct option record / server packet; all are non-trivial in the sense that "
                "the specification prescribes a complete expected packet / accessor record for each); each case runs through the real client "
                "once per build mode" % cfg["gen"],
        "samples": samples,
        "cases_by_kind": kinds,
        "cases_on_remaining_length_steps": step_hits,
        "tlc_enumeration_wall_s": round(gen_wall, 1),
        "build_modes": list(modes),
        "fragmented_write_runs_validated": extra_runs,
        "trace_validation_states": tstats.get("states", 0),
        "exhaustive": False,
    }
    vlib.write_evidence(prop, tier, "exploration", cov, time.time() - t0, len(viol) + len(extra_viol),
                        ["MqttWire.tla transcribes the MQTT 5 standard correctly (it was written from the standard, not from poster's sources)",
                         "the harness's independent codec and filler expansion are correct (cross-checked against the specification's lengths on every case)"])
    print("%s %s: %d cases (%d evaluations), %d known, %d violations, %.0fs" % (prop, tier, ncases, n + extra_runs, len(known), len(viol) + len(extra_viol), time.time() - t0))
    return rc
