"""Checks for the wire-level properties C01/C02 (TLA+ layout specification + TLC enumeration)."""
PROPS = {}


def run(prop, tier):
    raise NotImplementedError
