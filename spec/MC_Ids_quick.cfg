SPECIFICATION Spec
CONSTANTS
  NOps = 4
  Kinds = {"pub1", "sub"}
  Rmax = 2
  Msz = 0
  IdN = 2
  MaxIn = 0
  InQos = {}
  InIds = {}
  Reasons = {0}
  MaxCancel = 0
  MaxSpur = 0
  Endings = {}
  SeiSet = {"never"}
  ReR = {2}
  ReM = {0}
  Handshake = "none"
  RecordSched = FALSE
  Dev = {}
VIEW view
CONSTRAINT Proviso
INVARIANTS TypeOK Inv_C05 Inv_C11 Inv_C10
CHECK_DEADLOCK FALSE
