----------------------------- MODULE MqttLen -----------------------------
(* Encoded lengths of MQTT 5 client packets as functions of the abstract option record      *)
(* (string/binary lengths, which optional properties are present).  Closed forms derived    *)
(* from the OASIS standard; MqttWire.tla gives the full byte layouts and WireGenTx checks   *)
(* that both agree (ASSUME LenAgrees).                                                       *)
EXTENDS Naturals, Sequences

VBILen(n) == IF n < 128 THEN 1 ELSE IF n < 16384 THEN 2 ELSE IF n < 2097152 THEN 3 ELSE 4

\* property kinds: "b" byte, "w" two-byte int, "d" four-byte int, "v" variable byte int,
\* "s" UTF-8 string, "x" binary, "p" string pair
PropKind(id) ==
  CASE id \in {1, 23, 25, 36, 37, 40, 41, 42}  -> "b"    \* 0x01 0x17 0x19 0x24 0x25 0x28 0x29 0x2a
    [] id \in {19, 33, 34, 35}                 -> "w"    \* 0x13 0x21 0x22 0x23
    [] id \in {2, 17, 24, 39}                  -> "d"    \* 0x02 0x11 0x18 0x27
    [] id = 11                                 -> "v"    \* 0x0b
    [] id \in {3, 8, 18, 21, 26, 28, 31}       -> "s"    \* 0x03 0x08 0x12 0x15 0x1a 0x1c 0x1f
    [] id \in {9, 22}                          -> "x"    \* 0x09 0x16
    [] id = 38                                 -> "p"    \* 0x26
    [] OTHER                                   -> "?"

\* a property is given as <<id, n1, n2>>: n1 = length of the (first) string/binary or the
\* value of a variable byte integer, n2 = length of the second string of a pair
PropLen(p) ==
  1 + (CASE PropKind(p[1]) = "b" -> 1
         [] PropKind(p[1]) = "w" -> 2
         [] PropKind(p[1]) = "d" -> 4
         [] PropKind(p[1]) = "v" -> VBILen(p[2])
         [] PropKind(p[1]) \in {"s", "x"} -> 2 + p[2]
         [] PropKind(p[1]) = "p" -> 4 + p[2] + p[3]
         [] OTHER -> 0)

RECURSIVE SumSeq(_)
SumSeq(s) == IF s = <<>> THEN 0 ELSE Head(s) + SumSeq(Tail(s))

PropsBody(ps) == SumSeq([i \in 1..Len(ps) |-> PropLen(ps[i])])
PropsField(ps) == VBILen(PropsBody(ps)) + PropsBody(ps)     \* property length + properties

Framed(rem) == 1 + VBILen(rem) + rem                        \* fixed header + remaining length + rest

\* PUBLISH: topic (2+tl), packet identifier iff qos>0, properties, payload
PublishLen(qos, tl, pl, ps) ==
  Framed(2 + tl + (IF qos > 0 THEN 2 ELSE 0) + PropsField(ps) + pl)

\* SUBSCRIBE: packet identifier, properties (incl. the subscription identifier sid), then per filter 2+len+1
SubscribeLen(fl, ps, sid) ==
  Framed(2 + PropsField(<<<<11, sid, 0>>>> \o ps) + SumSeq([i \in 1..Len(fl) |-> 3 + fl[i]]))

UnsubscribeLen(fl, ps) ==
  Framed(2 + PropsField(ps) + SumSeq([i \in 1..Len(fl) |-> 2 + fl[i]]))

PingreqLen == 2
PubrelLen  == 4       \* reason 0x00 and no properties: the 2-byte-remaining-length form

\* DISCONNECT: reason 0x00 without properties may be sent with remaining length 0; poster always
\* writes reason + property length, which is equally well-formed. Both lengths are admitted.
DisconnectLenLong(ps) == Framed(1 + PropsField(ps))
DisconnectLens(rc, ps) ==
  IF rc = 0 /\ ps = <<>> THEN {2, DisconnectLenLong(ps)}
  ELSE IF ps = <<>> THEN {3, DisconnectLenLong(ps)} ELSE {DisconnectLenLong(ps)}
=============================================================================
