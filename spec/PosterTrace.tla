----------------------------- MODULE PosterTrace -----------------------------
(* Trace specification: replays an NDJSON trace recorded at the public boundary of the real *)
(* poster-rs client (mock transport, wakers, poll results, drops) against the reference      *)
(* transition functions of PosterCore.  A run is explained iff some interleaving of the      *)
(* actor's unobservable choices (order of packet/message handling) reproduces every          *)
(* observed write, completion, stream item and return value.  When no reference step can     *)
(* explain the next line the branch *diverges*: the violated clause is classified (property   *)
(* tag + clause) and the rest of the run is consumed unchecked.  A run is reported as         *)
(* violating only if every branch diverges.                                                   *)
EXTENDS PosterCore, MqttLen, TLC, Json, IOUtils

Rec == ndJsonDeserialize(IOEnv.TRACE)
N   == Len(Rec)

VARIABLES
  l,        \* index of the next trace line
  mode,     \* "ok" | "tainted"
  verdict,  \* <<>> or <<property, clause, line, detail>>
  cfg,      \* the run's parameters (reset line)
  S,        \* reference actor state
  msgQ,     \* messages enqueued by callers, not yet handled
  netIn,    \* inbound packets readable, not yet handled
  netEnd,   \* "open" | "eof" | "err"
  wrm,      \* writer mode "accept" | "max" | "block" | "err" | "zero"
  ph,       \* "run" | "ret" | "gone"
  inCtx,    \* "no" | "poll" (woken poll) | "spur" (poll without wake-up)
  retd,     \* <<>> or <<what run() must return>>
  ops,      \* live operation futures
  sts,      \* live stream receivers
  nh,       \* handles held by the driver
  discW,    \* the user's DISCONNECT has been written
  g,        \* observer: identifiers in use, subscription identifiers handed out
  resumeQ,  \* packets a resumed session must still re-send before anything else
  supp,     \* digests of suppressed QoS 2 re-deliveries (for classification only)
  secsAgo,  \* recorded disconnection (C17): <<>> or <<seconds>>
  blockedOn \* <<>> or <<[wr, deliv]>>: the actor is suspended in the write of an acknowledgement

vars == <<l, mode, verdict, cfg, S, msgQ, netIn, netEnd, wrm, ph, inCtx, retd, ops, sts, nh,
          discW, g, resumeQ, supp, secsAgo, blockedOn>>

Ln == Rec[l]
Ev(e) == l <= N /\ Rec[l].e = e
Adv == l' = l + 1

DropKey(f, k) == [x \in DOMAIN f \ {k} |-> f[x]]

\* ------------------------------------------------------------------------------------------
\* requests

ReqType(c) == CASE c.kind = "pub" -> "PUBLISH" [] c.kind = "sub" -> "SUBSCRIBE"
                [] c.kind = "unsub" -> "UNSUBSCRIBE" [] c.kind = "ping" -> "PINGREQ"
                [] c.kind = "disc" -> "DISCONNECT" [] OTHER -> "NONE"

ReqLen(c, sid) ==
  CASE c.kind = "pub"   -> PublishLen(c.qos, c.tl, c.pl, c.ps)
    [] c.kind = "sub"   -> SubscribeLen(c.fl, c.ps, sid)
    [] c.kind = "unsub" -> UnsubscribeLen(c.fl, c.ps)
    [] c.kind = "ping"  -> PingreqLen
    [] c.kind = "disc"  -> DisconnectLenLong(c.ps)
    [] OTHER -> 0

ReqPk(c, sid) == [NoPk EXCEPT !.t = ReqType(c), !.qos = c.qos, !.retain = c.retain, !.tag = c.tag,
                              !.len = ReqLen(c, sid)]

NewOp(c) == [kind |-> c.kind, qos |-> c.qos, st |-> "built", slot |-> <<>>, req |-> ReqPk(c, 1),
             sid |-> 0, c |-> [kind |-> c.kind, qos |-> c.qos, fl |-> c.fl, ps |-> c.ps, rcf |-> c.rcf]]

NeedsId(pk) == (pk.t = "PUBLISH" /\ pk.qos > 0) \/ pk.t \in {"SUBSCRIBE", "UNSUBSCRIBE"}

\* the lengths the request of message m may legally have on the wire, given what was written
LenOK(m, pk) ==
  CASE pk.t = "SUBSCRIBE"  -> Len(pk.sids) = 1 /\ pk.len = SubscribeLen(m.c.fl, m.c.ps, pk.sids[1])
    [] pk.t = "DISCONNECT" -> pk.len \in DisconnectLens(m.c.rcf, m.c.ps)
    [] pk.t = "PUBREL"     -> pk.len \in {4, 5, 6}
    [] OTHER               -> pk.len = m.pk.len

IdOK(m, pk) ==
  IF NeedsId(pk) THEN pk.id # 0 /\ pk.id \notin g.ids
  ELSE IF pk.t = "PUBREL" THEN pk.id = m.pk.id ELSE pk.id = 0

SidOK(pk) == pk.t = "SUBSCRIBE" => (Len(pk.sids) = 1 /\ pk.sids[1] # 0 /\ pk.sids[1] \notin g.sids)

FlagsOK(m, pk) == pk.t = m.pk.t /\ pk.qos = m.pk.qos /\ pk.retain = m.pk.retain /\ pk.dup = 0
                  /\ (pk.t = "PUBLISH" => pk.tag = m.pk.tag)

MatchReq(m, pk) == FlagsOK(m, pk) /\ LenOK(m, pk) /\ IdOK(m, pk) /\ SidOK(pk)

\* message with the identifiers the implementation chose substituted
Bind(m, pk) == [m EXCEPT !.pk = pk, !.sid = IF pk.t = "SUBSCRIBE" THEN pk.sids[1] ELSE 0]

\* ------------------------------------------------------------------------------------------
\* applying the output of a reference step

RECURSIVE ApplyComp(_, _)
ApplyComp(o, comp) ==
  IF comp = <<>> THEN o
  ELSE LET c == Head(comp)
           o1 == IF c.op \in DOMAIN o THEN [o EXCEPT ![c.op].slot = <<c.slot>>] ELSE o    \* else absorbed (C15)
       IN ApplyComp(o1, Tail(comp))

RECURSIVE ApplyDeliv(_, _)
ApplyDeliv(s, dl) ==
  IF dl = <<>> THEN s
  ELSE LET d == Head(dl)
           s1 == IF d.st \in DOMAIN s THEN [s EXCEPT ![d.st].buf = Append(@, d.pk)] ELSE s
       IN ApplyDeliv(s1, Tail(dl))

\* identifiers freed by handling acknowledgement p (the operation is no longer outstanding)
FreedIds(p) ==
  IF p.t \in {"PUBACK", "PUBCOMP", "SUBACK", "UNSUBACK"} \/ (p.t = "PUBREC" /\ IsFail(p.rc))
  THEN {p.id} ELSE {}

SVariants(St, m) ==
  IF St.loose /\ m.kind = "AA" /\ m.pk.t = "PUBLISH"
  THEN {[St EXCEPT !.quota = 0], [St EXCEPT !.quota = IF @ = 0 THEN 1 ELSE @]}
  ELSE {St}

HandlesAlive == nh > 0 \/ DOMAIN ops # {}

\* ------------------------------------------------------------------------------------------
\* environment lines

Reset ==
  /\ Ev("reset")
  /\ IF l = 1 THEN TRUE ELSE PrintT("RUN " \o ToJson(<<cfg.run, cfg.fam, verdict>>))
  /\ Adv
  \* the (untraced) handshake of a session family must have returned the CONNACK as ConnectRsp (C13)
  /\ mode' = IF Ln.ok = 1 THEN "ok" ELSE "tainted"
  /\ verdict' = IF Ln.ok = 1 THEN <<>> ELSE <<"C13", "connect-did-not-return-the-connack", l, Ln.fam>>
  /\ cfg' = Ln
  /\ S' = InitS(Ln.R, Ln.M)
  /\ msgQ' = <<>> /\ netIn' = <<>> /\ netEnd' = "open" /\ wrm' = "accept"
  /\ ph' = "run" /\ inCtx' = "no" /\ retd' = <<>>
  /\ ops' = <<>> /\ sts' = <<>> /\ nh' = 1 /\ discW' = FALSE
  /\ g' = [ids |-> {}, sids |-> {}, nsub |-> 0, szrej |-> 0, szany |-> 0, ncancel |-> 0]
  /\ resumeQ' = <<>> /\ supp' = {} /\ secsAgo' = <<>> /\ blockedOn' = <<>>

End ==
  /\ Ev("end")
  /\ PrintT("RUN " \o ToJson(<<cfg.run, cfg.fam, verdict>>))
  /\ PrintT("DONE " \o ToString(l))
  /\ Adv
  /\ UNCHANGED <<mode, verdict, cfg, S, msgQ, netIn, netEnd, wrm, ph, inCtx, retd, ops, sts, nh,
                 discW, g, resumeQ, supp, secsAgo, blockedOn>>

Ok == mode = "ok"

Call ==
  /\ Ok /\ Ev("call") /\ Adv
  /\ ops' = ops @@ (Ln.op :> NewOp(Ln))
  /\ UNCHANGED <<mode, verdict, cfg, S, msgQ, netIn, netEnd, wrm, ph, inCtx, retd, sts, nh, discW, g,
                 resumeQ, supp, secsAgo, blockedOn>>

Clone ==
  /\ Ok /\ Ev("clone") /\ Adv /\ nh' = nh + 1
  /\ UNCHANGED <<mode, verdict, cfg, S, msgQ, netIn, netEnd, wrm, ph, inCtx, retd, ops, sts, discW, g,
                 resumeQ, supp, secsAgo, blockedOn>>

Inject ==
  /\ Ok /\ Ev("inject") /\ Adv
  /\ netIn' = netIn \o Ln.pks
  /\ UNCHANGED <<mode, verdict, cfg, S, msgQ, netEnd, wrm, ph, inCtx, retd, ops, sts, nh, discW, g,
                 resumeQ, supp, secsAgo, blockedOn>>

NetEnd ==
  /\ Ok /\ (Ev("eof") \/ Ev("rderr")) /\ Adv
  /\ netEnd' = IF Ln.e = "eof" THEN "eof" ELSE "err"
  /\ UNCHANGED <<mode, verdict, cfg, S, msgQ, netIn, wrm, ph, inCtx, retd, ops, sts, nh, discW, g,
                 resumeQ, supp, secsAgo, blockedOn>>

WrMode ==
  /\ Ok /\ Ev("wrmode") /\ Adv
  /\ wrm' = Ln.m
  /\ UNCHANGED <<mode, verdict, cfg, S, msgQ, netIn, netEnd, ph, inCtx, retd, ops, sts, nh, discW, g,
                 resumeQ, supp, secsAgo, blockedOn>>

CancelWaiting(o) ==
  [k \in DOMAIN o |-> IF o[k].st # "built" /\ o[k].slot = <<>> THEN [o[k] EXCEPT !.slot = <<Cancelled>>] ELSE o[k]]

Drop ==
  /\ Ok /\ Ev("drop") /\ Adv
  /\ CASE Ln.task = "op" ->
            /\ ops' = DropKey(ops, Ln.k)
            /\ sts' = IF Ln.k \in DOMAIN sts /\ ~sts[Ln.k].pollable THEN DropKey(sts, Ln.k) ELSE sts
            /\ UNCHANGED <<nh, ph, msgQ>>
       [] Ln.task = "st" ->
            /\ sts' = DropKey(sts, Ln.k) /\ UNCHANGED <<ops, nh, ph, msgQ>>
       [] Ln.task = "h" ->
            /\ nh' = nh - 1 /\ UNCHANGED <<ops, sts, ph, msgQ>>
       [] Ln.task = "ctx" ->                                                     \* C14
            /\ ph' = "gone" /\ msgQ' = <<>>
            /\ ops' = CancelWaiting(ops)
            /\ sts' = [k \in DOMAIN sts |-> [sts[k] EXCEPT !.tx = FALSE]]
            /\ UNCHANGED nh
  /\ g' = IF Ln.task \in {"op", "st"} THEN [g EXCEPT !.ncancel = @ + 1] ELSE g
  /\ UNCHANGED <<mode, verdict, cfg, S, netIn, netEnd, wrm, inCtx, retd, discW, resumeQ, supp, secsAgo, blockedOn>>

\* ------------------------------------------------------------------------------------------
\* caller-side polls

SameRes(a, b) == a.r = b.r /\ a.kind = b.kind /\ a.rc = b.rc /\ a.x = b.x

\* first poll of a subscribe: the subscription identifier is not known before the packet is
\* written; its length is predicted from the number of subscribe calls so far
Prepare(o) == IF o.st = "built" /\ o.kind = "sub"
              THEN [o EXCEPT !.req = [@ EXCEPT !.len = SubscribeLen(o.c.fl, o.c.ps, g.nsub + 1)]]
              ELSE o

StepOf(k) == LET raw == OpStep(k, Prepare(ops[k]), ph # "gone")
                 enq == [i \in 1..Len(raw.enq) |-> [kind |-> raw.enq[i].kind, op |-> k, pk |-> raw.enq[i].pk,
                                                    sid |-> 0, c |-> ops[k].c]]
             IN [o |-> raw.o, enq |-> enq, res |-> raw.res, fin |-> raw.fin]

InvalidCall(c) == c.kind \in {"sub", "unsub"} /\ c.fl = <<>>

PollOp ==
  /\ Ok /\ Ev("pollop") /\ Ln.k \in DOMAIN ops /\ ~(ops[Ln.k].st = "built" /\ InvalidCall(ops[Ln.k].c))
  /\ LET k == Ln.k
         st == StepOf(k)
     IN /\ SameRes(st.res, Ln.res)
        /\ (Ln.woken = 1 \/ Ln.res.r = "pending")                        \* C16: progress only after a wake-up
        /\ Ln.first = (IF ops[k].st = "built" THEN 1 ELSE 0)
        /\ ops' = IF st.fin THEN DropKey(ops, k) ELSE [ops EXCEPT ![k] = st.o]
        /\ msgQ' = msgQ \o st.enq
        /\ g' = IF ops[k].st = "built" /\ ops[k].kind = "sub" /\ ~st.fin THEN [g EXCEPT !.nsub = @ + 1] ELSE g
        /\ sts' = IF st.fin /\ ops[k].kind = "sub" /\ k \in DOMAIN sts
                  THEN (IF st.res.r = "ok" THEN [sts EXCEPT ![k].pollable = TRUE] ELSE DropKey(sts, k))
                  ELSE sts
  /\ Adv
  /\ UNCHANGED <<mode, verdict, cfg, S, netIn, netEnd, wrm, ph, inCtx, retd, nh, discW, resumeQ, supp, secsAgo, blockedOn>>

\* a request missing a mandatory part (subscribe / unsubscribe without a topic filter) is refused by the handle itself at its
\* first poll: an error, nothing queued (nothing written - C01 checks that on the wire side)
PollOpRefusedLocally ==
  /\ Ok /\ Ev("pollop") /\ Ln.k \in DOMAIN ops /\ ops[Ln.k].st = "built" /\ InvalidCall(ops[Ln.k].c)
  /\ Ln.first = 1 /\ Ln.res.r = "err"
  /\ ops' = DropKey(ops, Ln.k)
  /\ Adv
  /\ UNCHANGED <<mode, verdict, cfg, S, msgQ, netIn, netEnd, wrm, ph, inCtx, retd, sts, nh, discW, g, resumeQ, supp, secsAgo, blockedOn>>

SameItem(a, b) == a.qos = b.qos /\ a.dup = b.dup /\ a.retain = b.retain /\ a.tag = b.tag /\ a.x = b.x

StExpected(s) == IF s.buf # <<>> THEN "item" ELSE IF s.tx THEN "pending" ELSE "end"

PollSt ==
  /\ Ok /\ Ev("pollst") /\ Ln.k \in DOMAIN sts /\ sts[Ln.k].pollable
  /\ LET s == sts[Ln.k] IN
        /\ Ln.res.r = StExpected(s)
        /\ (Ln.res.r = "item" => SameItem(Head(s.buf), Ln.res.pk))        \* C07: intact, in order
        /\ (Ln.woken = 1 \/ Ln.res.r = "pending")
        /\ sts' = CASE Ln.res.r = "item" -> [sts EXCEPT ![Ln.k].buf = Tail(@),
                                                        ![Ln.k].seen2 = IF Ln.res.pk.qos = 2 THEN @ \cup {Ln.res.pk.x, "pd:" \o Ln.res.pk.pd} ELSE @]
                    [] Ln.res.r = "end"  -> DropKey(sts, Ln.k)
                    [] OTHER -> sts
  /\ Adv
  /\ UNCHANGED <<mode, verdict, cfg, S, msgQ, netIn, netEnd, wrm, ph, inCtx, retd, ops, nh, discW, g,
                 resumeQ, supp, secsAgo, blockedOn>>

\* ------------------------------------------------------------------------------------------
\* the context task

CtxBegin ==
  /\ Ok /\ Ev("ctxb") /\ inCtx = "no" /\ ph # "gone" /\ Adv
  /\ inCtx' = IF Ln.woken = 1 THEN "poll" ELSE "spur"
  /\ UNCHANGED <<mode, verdict, cfg, S, msgQ, netIn, netEnd, wrm, ph, retd, ops, sts, nh, discW, g,
                 resumeQ, supp, secsAgo, blockedOn>>

Stepping == Ok /\ inCtx = "poll" /\ ph = "run" /\ retd = <<>> /\ blockedOn = <<>>

DecideMarker(expired) == [NoPk EXCEPT !.t = IF expired THEN "ABANDON" ELSE "RESUME"]
Deciding == resumeQ # <<>> /\ Head(resumeQ).t \in {"ABANDON", "RESUME"}

CanWrite == wrm \in {"accept", "max"}
WriteFails == wrm \in {"err", "zero"}

\* a reference step whose output `out` (with a write, if any, matching the next trace line)
ApplyOut(out, freed, newids, newsids) ==
  /\ S' = out.S
  /\ ops' = ApplyComp(ops, out.comp)
  /\ retd' = out.ret
  /\ supp' = supp \cup {out.supp[i] : i \in 1..Len(out.supp)}
  /\ g' = [g EXCEPT !.ids = (@ \ freed) \cup newids, !.sids = @ \cup newsids,
                     !.szrej = IF \E i \in 1..Len(out.comp) : out.comp[i].slot.k = "res" /\ out.comp[i].slot.res.kind = "MaximumPacketSizeExceeded"
                                     /\ out.comp[i].op \in DOMAIN ops /\ ops[out.comp[i].op].kind = "pub" /\ ops[out.comp[i].op].qos > 0
                               THEN @ + 1 ELSE @,
                     !.szany = IF \E i \in 1..Len(out.comp) : out.comp[i].slot.k = "res" /\ out.comp[i].slot.res.kind = "MaximumPacketSizeExceeded"
                               THEN @ + 1 ELSE @]

TakeResume ==                                                                  \* C17
  /\ Stepping /\ resumeQ # <<>> /\ ~Deciding /\ CanWrite
  /\ Ev("wr")
  /\ LET e == Head(resumeQ) p == Ln.pk IN
        p.t = e.t /\ p.id = e.id /\ p.qos = e.qos /\ p.dup = e.dup /\ p.retain = e.retain
        /\ p.tag = e.tag /\ p.len = e.len /\ p.x = e.x
  /\ resumeQ' = Tail(resumeQ) /\ Adv
  /\ UNCHANGED <<mode, verdict, cfg, S, msgQ, netIn, netEnd, wrm, ph, inCtx, retd, ops, sts, nh, discW, g,
                 supp, secsAgo, blockedOn>>

TakeMsgSilent ==      \* a message that is refused (size, quota): nothing is written
  /\ Stepping /\ resumeQ = <<>> /\ msgQ # <<>> /\ ~discW
  /\ \E St \in SVariants(S, Head(msgQ)) :
       LET m == Head(msgQ) out == HandleMsg(St, m) IN
         /\ out.wr = <<>>
         /\ ApplyOut([out EXCEPT !.S = [out.S EXCEPT !.quota = IF S.loose THEN S.quota ELSE @]], {}, {}, {})
  /\ msgQ' = Tail(msgQ)
  /\ UNCHANGED <<l, mode, verdict, cfg, netIn, netEnd, wrm, ph, inCtx, sts, nh, discW, resumeQ, secsAgo, blockedOn>>

TakeMsgSkipCancelled ==   \* the statements do not require a request to be sent once its caller has gone, unless
  /\ Stepping /\ resumeQ = <<>> /\ msgQ # <<>>            \* it is the second half of an exchange already on the wire
  /\ Head(msgQ).op \notin DOMAIN ops /\ Head(msgQ).pk.t # "PUBREL"
  /\ msgQ' = Tail(msgQ)
  /\ UNCHANGED <<l, mode, verdict, cfg, S, netIn, netEnd, wrm, ph, inCtx, retd, ops, sts, nh, discW, g, resumeQ, supp, secsAgo, blockedOn>>

TakeMsgWrite ==       \* a message whose packet appears on the wire as the next line
  /\ Stepping /\ resumeQ = <<>> /\ msgQ # <<>> /\ CanWrite /\ ~discW
  /\ Ev("wr")
  /\ MatchReq(Head(msgQ), Ln.pk)
  /\ \E St \in SVariants(S, Head(msgQ)) :
       LET m == Bind(Head(msgQ), Ln.pk) out == HandleMsg(St, m) IN
         /\ out.wr # <<>>
         /\ ApplyOut(out, {}, IF NeedsId(Ln.pk) THEN {Ln.pk.id} ELSE {},
                     IF Ln.pk.t = "SUBSCRIBE" THEN {Ln.pk.sids[1]} ELSE {})
         /\ sts' = IF m.kind = "SUB" /\ m.op \in DOMAIN ops
                   THEN sts @@ (m.op :> [buf |-> <<>>, tx |-> TRUE, pollable |-> FALSE, seen2 |-> {}]) ELSE sts
         /\ discW' = (Ln.pk.t = "DISCONNECT")
  /\ msgQ' = Tail(msgQ) /\ Adv
  /\ UNCHANGED <<mode, verdict, cfg, netIn, netEnd, wrm, ph, inCtx, nh, resumeQ, secsAgo, blockedOn>>

TakeMsgWriteFails ==  \* the transport refuses the write: run() must end with SocketClosed
  /\ Stepping /\ resumeQ = <<>> /\ msgQ # <<>> /\ WriteFails /\ ~discW
  /\ LET m == Head(msgQ) out == HandleMsg([S EXCEPT !.quota = IF @ = 0 /\ S.loose THEN 1 ELSE @], m) IN
       /\ out.wr # <<>>
       /\ retd' = <<Res("ret", "SocketClosed", 0, "")>>
       /\ S' = [S EXCEPT !.loose = TRUE]
       /\ \/ ops' = ops            \* whether the caller is told before the context is dropped is not specified
          \/ (m.op \in DOMAIN ops /\ ops' = [ops EXCEPT ![m.op].slot = <<Cancelled>>])
  /\ msgQ' = Tail(msgQ)
  /\ UNCHANGED <<l, mode, verdict, cfg, netIn, netEnd, wrm, ph, inCtx, sts, nh, discW, g, resumeQ, supp, secsAgo, blockedOn>>

TakePktSilent ==
  /\ Stepping /\ resumeQ = <<>> /\ netIn # <<>>
  /\ LET p == Head(netIn) out == HandlePkt(S, p) IN
       /\ out.wr = <<>>
       /\ \/ ApplyOut(out, FreedIds(p), {}, {})
          \/ (p.t \in {"CONNACK", "AUTH", "SUBSCRIBE", "UNSUBSCRIBE", "CONNECT", "PINGREQ"}      \* unexpected but decodable:
              /\ ApplyOut([out EXCEPT !.ret = <<>>], {}, {}, {}))                               \* ignoring it is permitted too
       /\ sts' = ApplyDeliv(sts, out.deliv)
  /\ netIn' = Tail(netIn)
  /\ UNCHANGED <<l, mode, verdict, cfg, msgQ, netEnd, wrm, ph, inCtx, nh, discW, resumeQ, secsAgo, blockedOn>>

TakePktWrite ==
  /\ Stepping /\ resumeQ = <<>> /\ netIn # <<>> /\ CanWrite /\ ~discW
  /\ Ev("wr")
  /\ LET p == Head(netIn) out == HandlePkt(S, p) IN
       /\ out.wr # <<>>
       /\ Ln.pk.t = out.wr[1].t /\ Ln.pk.id = out.wr[1].id                      \* C08: own type, own identifier
       /\ ~IsFail(Ln.pk.rc)
       /\ ApplyOut(out, {}, {}, {})
       /\ sts' = ApplyDeliv(sts, out.deliv)
  /\ netIn' = Tail(netIn) /\ Adv
  /\ UNCHANGED <<mode, verdict, cfg, msgQ, netEnd, wrm, ph, inCtx, nh, discW, resumeQ, secsAgo, blockedOn>>

TakePktWriteFails ==
  /\ Stepping /\ resumeQ = <<>> /\ netIn # <<>> /\ WriteFails
  /\ LET p == Head(netIn) out == HandlePkt(S, p) IN
       /\ out.wr # <<>>
       /\ retd' = <<Res("ret", "SocketClosed", 0, "")>>
       /\ S' = [out.S EXCEPT !.loose = TRUE]
       /\ \/ sts' = ApplyDeliv(sts, out.deliv)       \* delivery before or after the failed acknowledgement
          \/ sts' = sts
  /\ netIn' = Tail(netIn)
  /\ UNCHANGED <<l, mode, verdict, cfg, msgQ, netEnd, wrm, ph, inCtx, ops, nh, discW, g, resumeQ, supp, secsAgo, blockedOn>>

\* the writer is not accepting: the actor is suspended inside the write of the acknowledgement.  The
\* message may have been handed to its stream before the write or be handed over after it.
TakePktBlocked ==
  /\ Stepping /\ resumeQ = <<>> /\ netIn # <<>> /\ wrm = "block" /\ ~discW
  /\ LET p == Head(netIn) out == HandlePkt(S, p) IN
       /\ out.wr # <<>>
       /\ S' = out.S
       /\ supp' = supp \cup {out.supp[i] : i \in 1..Len(out.supp)}
       /\ \/ (sts' = ApplyDeliv(sts, out.deliv) /\ blockedOn' = <<[wr |-> out.wr[1], deliv |-> <<>>]>>)
          \/ (sts' = sts /\ blockedOn' = <<[wr |-> out.wr[1], deliv |-> out.deliv]>>)
  /\ netIn' = Tail(netIn)
  /\ UNCHANGED <<l, mode, verdict, cfg, msgQ, netEnd, wrm, ph, inCtx, retd, ops, nh, discW, g, resumeQ, secsAgo>>

TakeOwed ==
  /\ Ok /\ inCtx = "poll" /\ ph = "run" /\ retd = <<>> /\ blockedOn # <<>> /\ CanWrite
  /\ Ev("wr")
  /\ Ln.pk.t = blockedOn[1].wr.t /\ Ln.pk.id = blockedOn[1].wr.id /\ ~IsFail(Ln.pk.rc)
  /\ sts' = ApplyDeliv(sts, blockedOn[1].deliv)
  /\ blockedOn' = <<>> /\ Adv
  /\ UNCHANGED <<mode, verdict, cfg, S, msgQ, netIn, netEnd, wrm, ph, inCtx, retd, ops, nh, discW, g, resumeQ, supp, secsAgo>>

TakeOwedFails ==
  /\ Ok /\ inCtx = "poll" /\ ph = "run" /\ retd = <<>> /\ blockedOn # <<>> /\ WriteFails
  /\ retd' = <<Res("ret", "SocketClosed", 0, "")>>
  /\ S' = [S EXCEPT !.loose = TRUE]
  /\ (sts' = ApplyDeliv(sts, blockedOn[1].deliv) \/ sts' = sts)
  /\ blockedOn' = <<>>
  /\ UNCHANGED <<l, mode, verdict, cfg, msgQ, netIn, netEnd, wrm, ph, inCtx, ops, nh, discW, g, resumeQ, supp, secsAgo>>

TakeNetEnd ==                                                                       \* C13: SocketClosed
  /\ Stepping /\ netIn = <<>> /\ netEnd # "open"
  /\ retd' = <<Res("ret", "SocketClosed", 0, "")>>
  /\ UNCHANGED <<l, mode, verdict, cfg, S, msgQ, netIn, netEnd, wrm, ph, inCtx, ops, sts, nh, discW, g,
                 resumeQ, supp, secsAgo, blockedOn>>

TakeHandlesGone ==                                                                  \* C13: HandleClosed
  /\ Stepping /\ msgQ = <<>> /\ ~HandlesAlive
  /\ retd' = <<Res("ret", "HandleClosed", 0, "")>>
  /\ UNCHANGED <<l, mode, verdict, cfg, S, msgQ, netIn, netEnd, wrm, ph, inCtx, ops, sts, nh, discW, g,
                 resumeQ, supp, secsAgo, blockedOn>>

\* what is still to do needs a write that the transport is not accepting
NeedsWrite ==
  \/ resumeQ # <<>>
  \/ (msgQ # <<>> /\ \E St \in SVariants(S, Head(msgQ)) : HandleMsg(St, Head(msgQ)).wr # <<>>)
  \/ (netIn # <<>> /\ HandlePkt(S, Head(netIn)).wr # <<>>)

NoWorkLeft == msgQ = <<>> /\ netIn = <<>> /\ netEnd = "open" /\ HandlesAlive /\ resumeQ = <<>>

RetMatches(want, got) ==
  /\ got.r = "ret"
  /\ IF want.kind = "AnyError" THEN got.kind # "Ok"
     ELSE got.kind = want.kind /\ got.rc = want.rc /\ got.x = want.x

CtxEndPending ==
  /\ Ok /\ Ev("ctxe") /\ inCtx # "no" /\ Ln.res.r = "pending"
  /\ retd = <<>>
  /\ \/ ph = "ret"
     \/ (ph = "run" /\ NoWorkLeft /\ Ln.unread = 0)                                   \* C03: everything consumed
     \/ (ph = "run" /\ wrm = "block" /\ (NeedsWrite \/ blockedOn # <<>>))
     \/ (ph = "run" /\ discW)       \* after the user's DISCONNECT nothing else is required of the actor
  /\ inCtx' = "no" /\ Adv
  /\ UNCHANGED <<mode, verdict, cfg, S, msgQ, netIn, netEnd, wrm, ph, retd, ops, sts, nh, discW, g,
                 resumeQ, supp, secsAgo, blockedOn>>

CtxEndReturn ==
  /\ Ok /\ Ev("ctxe") /\ inCtx = "poll" /\ ph = "run" /\ Ln.res.r = "ret"
  /\ retd # <<>> /\ RetMatches(retd[1], Ln.res)
  /\ inCtx' = "no" /\ ph' = "ret" /\ retd' = <<>> /\ Adv
  /\ UNCHANGED <<mode, verdict, cfg, S, msgQ, netIn, netEnd, wrm, ops, sts, nh, discW, g, resumeQ, supp, secsAgo, blockedOn>>

\* ------------------------------------------------------------------------------------------
\* quiescent points: the driver has run every woken task until none was left, then polled every
\* task once more without a wake-up (those polls are ordinary lines with woken = 0)

Quiescent ==
  /\ Ok /\ Ev("quiescent") /\ inCtx = "no"
  /\ \A k \in DOMAIN ops : ops[k].st = "built" \/ ops[k].slot = <<>>               \* C05 / C14: nothing withheld
  /\ \A k \in DOMAIN sts : sts[k].pollable => (sts[k].buf = <<>> /\ sts[k].tx)     \* C07 / C14
  /\ (ph = "run" /\ wrm # "block" /\ ~discW) => (NoWorkLeft /\ blockedOn = <<>> /\ Ln.unread = 0)  \* C03
  /\ Adv
  /\ UNCHANGED <<mode, verdict, cfg, S, msgQ, netIn, netEnd, wrm, ph, inCtx, retd, ops, sts, nh, discW, g,
                 resumeQ, supp, secsAgo, blockedOn>>

\* ------------------------------------------------------------------------------------------
\* session resumption (C17)

MarkDisc ==
  /\ Ok /\ Ev("markdisc") /\ ph = "ret" /\ Adv
  /\ secsAgo' = <<Ln.secs>>
  /\ UNCHANGED <<mode, verdict, cfg, S, msgQ, netIn, netEnd, wrm, ph, inCtx, retd, ops, sts, nh, discW, g,
                 resumeQ, supp, blockedOn>>

CancelAwaiting(o, aw) ==
  [k \in DOMAIN o |-> IF \E i \in 1..Len(aw) : aw[i].op = k THEN [o[k] EXCEPT !.slot = <<Cancelled>>] ELSE o[k]]

\* connecting again: the new CONNACK's limits apply at once; whether the session is resumed or abandoned is
\* decided (and takes effect) when run() starts serving the new connection, i.e. in its first poll

Reconnect ==
  /\ Ok /\ Ev("reconnect") /\ ph = "ret" /\ Ln.ok = 1 /\ Adv
  /\ LET expired == secsAgo # <<>> /\ SessionExpired(Ln.seik, Ln.sei, secsAgo[1]) IN
        \* the exchanges still in flight keep their slots: re-sent PUBLISH packets are "sent and not yet completed" on the
        \* new connection as well, so the quota is the new Receive Maximum less the slots in use (C10 across a resumption)
        \* (without a recorded disconnection nothing is resumed or abandoned and the bookkeeping is not determined)
        /\ S' = IF secsAgo # <<>>
                THEN [S EXCEPT !.R = Ln.R, !.M = Ln.M, !.quota = IF Ln.R >= S.R - S.quota THEN Ln.R - (S.R - S.quota) ELSE 0]
                ELSE [S EXCEPT !.R = Ln.R, !.M = Ln.M, !.quota = Ln.R, !.loose = TRUE]
        /\ resumeQ' = IF secsAgo # <<>> THEN <<DecideMarker(expired)>> ELSE <<>>
  /\ ph' = "run" /\ netIn' = <<>> /\ netEnd' = "open" /\ wrm' = "accept" /\ retd' = <<>> /\ secsAgo' = <<>>
  /\ discW' = FALSE
  /\ cfg' = [cfg EXCEPT !.R = Ln.R, !.M = Ln.M, !.sei = Ln.sei, !.recon = 1]
  /\ blockedOn' = <<>>
  /\ UNCHANGED <<mode, verdict, msgQ, inCtx, nh, supp, ops, sts, g>>

TakeResumeDecide ==      \* silent: run() applies the decision before anything else
  /\ Stepping /\ Deciding
  /\ LET expired == Head(resumeQ).t = "ABANDON" IN
        \* an abandoned session starts from scratch: the quota is exactly the new Receive Maximum again
        /\ S' = IF expired THEN [InitS(S.R, S.M) EXCEPT !.rx2 = S.rx2] ELSE S
        /\ ops' = IF expired THEN CancelAwaiting(ops, S.await) ELSE ops
        /\ sts' = IF expired THEN [k \in DOMAIN sts |-> [sts[k] EXCEPT !.tx = FALSE]] ELSE sts
        /\ resumeQ' = IF expired THEN <<>> ELSE ResumeWrites(S)
        /\ g' = IF expired THEN [g EXCEPT !.ids = {}] ELSE g
  /\ UNCHANGED <<l, mode, verdict, cfg, msgQ, netIn, netEnd, wrm, ph, inCtx, retd, nh, discW, supp, secsAgo, blockedOn>>

\* the first response to connect()/authorize()  (C13)
FirstWant(inj, rc, x) ==
  CASE inj = "CONNACK" -> IF IsFail(rc) THEN Res("ret", "ConnectError", rc, x) ELSE Res("ret", "ConnectRsp", rc, "")
    [] inj = "AUTH"    -> IF IsFail(rc) THEN Res("ret", "AuthError", rc, x) ELSE Res("ret", "AuthRsp", rc, "")
    [] OTHER           -> Res("ret", "SocketClosed", 0, "")

First ==
  /\ Ok /\ Ev("first") /\ Adv
  /\ SameRes(FirstWant(Ln.inj, Ln.rc, Ln.x), Ln.res)
  /\ UNCHANGED <<mode, verdict, cfg, S, msgQ, netIn, netEnd, wrm, ph, inCtx, retd, ops, sts, nh, discW, g,
                 resumeQ, supp, secsAgo, blockedOn>>

\* one fuzz case (C04): bytes injected in some phase, then the transport ends.  o1 = state of the affected call
\* after the bytes, o2 = after the end of the transport.  Permitted: keeps serving having consumed everything, or
\* has returned; after the transport ended it must have returned.  "exempt" = the documented assertion.
FuzzOK(f) ==
  \/ f.o1 = "exempt"
  \/ /\ f.o1 \in {"pending", "ret"} /\ f.o2 \in {"pending", "ret"} /\ f.oppanic = 0
     /\ (f.o1 = "pending" => f.unread = 0)
     /\ (f.o1 = "ret" \/ f.o2 = "ret")

Fuzz ==
  /\ Ok /\ Ev("fuzz") /\ Adv /\ FuzzOK(Ln)
  /\ UNCHANGED <<mode, verdict, cfg, S, msgQ, netIn, netEnd, wrm, ph, inCtx, retd, ops, sts, nh, discW, g,
                 resumeQ, supp, secsAgo, blockedOn>>

\* outcome of replaying a script under another polling discipline (C16)
DiscCmp ==
  /\ Ok /\ Ev("disccmp") /\ Adv /\ Ln.same = 1
  /\ UNCHANGED <<mode, verdict, cfg, S, msgQ, netIn, netEnd, wrm, ph, inCtx, retd, ops, sts, nh, discW, g,
                 resumeQ, supp, secsAgo, blockedOn>>

\* multi-thread family (C11): the broker's own log of what it saw on the wire (twr) and what it acknowledged (tack).
\* An identifier is in use from its packet on the wire until the final acknowledgement of the exchange was injected.
TWr ==
  /\ Ok /\ Ev("twr") /\ Adv
  /\ IF (Ln.t = "PUBLISH" /\ Ln.qos > 0) \/ Ln.t \in {"SUBSCRIBE", "UNSUBSCRIBE"}
     THEN /\ Ln.id # 0 /\ Ln.id \notin g.ids
          /\ (Ln.t = "SUBSCRIBE" => (Ln.sid # 0 /\ Ln.sid \notin g.sids))
          /\ g' = [g EXCEPT !.ids = @ \cup {Ln.id}, !.sids = IF Ln.t = "SUBSCRIBE" THEN @ \cup {Ln.sid} ELSE @]
     ELSE /\ Ln.t \in {"PUBLISH", "PUBREL", "PINGREQ", "DISCONNECT"}
          /\ (Ln.t = "PUBREL" => Ln.id \in g.ids)
          /\ g' = g
  /\ UNCHANGED <<mode, verdict, cfg, S, msgQ, netIn, netEnd, wrm, ph, inCtx, retd, ops, sts, nh, discW, resumeQ, supp, secsAgo, blockedOn>>

TAck ==
  /\ Ok /\ Ev("tack") /\ Adv
  /\ g' = IF Ln.t \in {"PUBACK", "PUBCOMP", "SUBACK", "UNSUBACK"} THEN [g EXCEPT !.ids = @ \ {Ln.id}] ELSE g
  /\ UNCHANGED <<mode, verdict, cfg, S, msgQ, netIn, netEnd, wrm, ph, inCtx, retd, ops, sts, nh, discW, resumeQ, supp, secsAgo, blockedOn>>

TDone ==
  /\ Ok /\ Ev("tdone") /\ Adv /\ Ln.failed = 0 /\ Ln.written >= Ln.expected
  /\ UNCHANGED <<mode, verdict, cfg, S, msgQ, netIn, netEnd, wrm, ph, inCtx, retd, ops, sts, nh, discW, g, resumeQ, supp, secsAgo, blockedOn>>

\* informational lines that need no reference step
Info ==
  /\ Ok /\ l <= N /\ Ln.e \in {"rd", "wrpart", "wrpending", "wrerr", "note"} /\ Adv
  /\ UNCHANGED <<mode, verdict, cfg, S, msgQ, netIn, netEnd, wrm, ph, inCtx, retd, ops, sts, nh, discW, g,
                 resumeQ, supp, secsAgo, blockedOn>>

Normal ==
  \/ Call \/ Clone \/ Inject \/ NetEnd \/ WrMode \/ Drop \/ PollOp \/ PollOpRefusedLocally \/ PollSt
  \/ CtxBegin \/ TakeResumeDecide \/ TakeResume \/ TakeMsgSilent \/ TakeMsgSkipCancelled \/ TakeMsgWrite \/ TakeMsgWriteFails
  \/ TakePktSilent \/ TakePktWrite \/ TakePktWriteFails \/ TakePktBlocked \/ TakeOwed \/ TakeOwedFails
  \/ TakeNetEnd \/ TakeHandlesGone
  \/ CtxEndPending \/ CtxEndReturn \/ Quiescent \/ MarkDisc \/ Reconnect \/ Info \/ First \/ Fuzz \/ DiscCmp \/ TWr \/ TAck \/ TDone

\* ------------------------------------------------------------------------------------------
\* classification of a divergence: which property's clause does the unexplained line violate?

RECURSIVE NextPollOf(_, _)
NextPollOf(k, i) ==       \* the next result reported for operation k at or after line i (look-ahead, classification only)
  IF i > N \/ Rec[i].e \in {"reset", "end"} THEN Pending
  ELSE IF Rec[i].e = "pollop" /\ Rec[i].k = k /\ Rec[i].res.r # "pending" THEN Rec[i].res
  ELSE NextPollOf(k, i + 1)

V(prop, clause, detail) == <<prop, clause, l, detail>>
\* a divergence in what another caller gets, after some future or stream was dropped, is also C15's business
WithC15(p) == IF g.ncancel > 0 THEN <<p, "C15">> ELSE p

\* look-ahead (classification only): is the next poll of the context task one without a wake-up that nevertheless
\* makes progress (writes something)?  Then the stall at this point was a lost wake-up, not a missing reaction.
RECURSIVE LostWakeupAhead(_)
LostWakeupAhead(i) ==
  IF i > N \/ Rec[i].e \in {"reset", "end"} THEN FALSE
  ELSE IF Rec[i].e = "ctxb" THEN Rec[i].woken = 0 /\ i + 1 <= N /\ Rec[i + 1].e = "wr"
  ELSE LostWakeupAhead(i + 1)
\* (input that has arrived and is not being read is a stall with unread input whatever its cause: C04 as well)
Stall(detail) == IF LostWakeupAhead(l + 1) THEN V(<<"C03", "C16", "C04">>, "lost-wakeup", detail) ELSE V(<<"C03", "C04">>, "unread-input", detail)

HeadNotWritten ==
  LET m == Head(msgQ) nx == NextPollOf(m.op, l) IN
    IF nx.kind = "MaximumPacketSizeExceeded" THEN V("C12", "rejected-under-limit", <<m.pk.t, m.pk.len, S.M>>)
    \* (the publish is on the wire and now completes without its PUBCOMP: C05 as well)
    ELSE IF nx.kind = "QuotaExceeded" /\ m.pk.t = "PUBREL" THEN V(<<"C06", "C10", "C05">>, "pubrel-refused-by-quota", <<m.pk.id, S.quota>>)
    ELSE IF nx.kind = "QuotaExceeded" THEN
           (IF g.szrej > 0 THEN V(<<"C12", "C10">>, "refused-request-left-quota-behind", <<S.quota, S.R, g.szrej>>)
            \* (a request that the quota never limits - anything but a new QoS>0 PUBLISH - is kept from the wire and its
            \* caller told so instead of waiting for the acknowledgement: C05 as well)
            ELSE IF m.pk.t # "PUBLISH" THEN V(<<"C10", "C05">>, "rejected-under-quota", <<m.pk.t, S.quota, S.R>>)
            ELSE V(WithC15("C10"), "rejected-under-quota", <<S.quota, S.R>>))
    ELSE IF m.pk.t \in {"PUBLISH", "PUBREL"} THEN V(WithC15("C06"), "request-not-written", <<m.pk.t, nx.kind>>)
    ELSE V(WithC15("C05"), "request-not-written", <<m.pk.t, nx.kind>>)

\* the reference has (on this branch) already refused the request with this topic for the given reason
RefusedBy(tag, kind) ==
  \E k \in DOMAIN ops : ops[k].req.tag = tag /\ ops[k].slot # <<>> /\ ops[k].slot[1].k = "res" /\ ops[k].slot[1].res.kind = kind

\* ... a request of this type (and, for PUBLISH, this topic)
RefusedType(pk, kind) ==
  \E k \in DOMAIN ops : ops[k].req.t = pk.t /\ (pk.t = "PUBLISH" => ops[k].req.tag = pk.tag)
                        /\ ops[k].slot # <<>> /\ ops[k].slot[1].k = "res" /\ ops[k].slot[1].res.kind = kind

ClassifyWr(pk) ==
  IF ph # "run" \/ discW THEN V("C13", "write-after-end", pk.t)
  ELSE IF pk.t = "MALFORMED" THEN
         \* whatever was meant, it is not a well-formed packet (C01); when a retransmission (C17) or an acknowledgement
         \* (C08) was due at this point that obligation is broken by the same bytes; and a request that is within the
         \* limits has not been "written in full" (C12)
         V(<<"C01">> \o (IF resumeQ # <<>> /\ ~Deciding THEN <<"C17">> ELSE <<>>)
                    \o (IF resumeQ = <<>> /\ msgQ # <<>> THEN <<"C12">> ELSE <<>>)
                    \* (... and if that request is a PUBLISH or PUBREL, the publish has not put its packet on the connection: C06)
                    \o (IF resumeQ = <<>> /\ msgQ # <<>> /\ Head(msgQ).pk.t \in {"PUBLISH", "PUBREL"} THEN <<"C06">> ELSE <<>>)
                    \o (IF resumeQ = <<>> /\ netIn # <<>> /\ HandlePkt(S, Head(netIn)).wr # <<>> THEN <<"C08">> ELSE <<>>),
           "malformed-packet", pk.x)
  ELSE IF resumeQ # <<>> /\ ~Deciding THEN V("C17", "resume-mismatch", <<pk.t, pk.id, pk.dup, Head(resumeQ).t, Head(resumeQ).id>>)
  ELSE IF cfg.recon = 1 /\ ((pk.t = "PUBLISH" /\ pk.dup = 1) \/ (pk.t = "PUBREL" /\ (msgQ = <<>> \/ Head(msgQ).pk.t # "PUBREL")))
       THEN V("C17", "unexpected-retransmission", <<pk.t, pk.id>>)
  ELSE IF pk.t \in {"PUBACK", "PUBREC", "PUBCOMP"} THEN
         V(WithC15("C08"), "unexpected-ack", <<pk.t, pk.id, IF netIn # <<>> THEN <<Head(netIn).t, Head(netIn).id, Head(netIn).qos>> ELSE <<>> >>)
  ELSE IF pk.t = "PUBLISH" /\ RefusedBy(pk.tag, "QuotaExceeded") THEN V("C10", "written-over-quota", <<pk.id, S.R>>)
  ELSE IF RefusedType(pk, "MaximumPacketSizeExceeded") THEN V("C12", "written-over-limit", <<pk.t, pk.len, S.M>>)
  ELSE IF msgQ # <<>> /\ (Head(msgQ).pk.t # pk.t \/ (pk.t = "PUBLISH" /\ Head(msgQ).pk.tag # pk.tag))
          /\ \E i \in 2..Len(msgQ) : msgQ[i].pk.t = pk.t /\ (pk.t = "PUBLISH" => msgQ[i].pk.tag = pk.tag)
       THEN HeadNotWritten          \* a later request was written: the head of the queue was passed over
  ELSE IF msgQ = <<>> \/ Head(msgQ).pk.t # pk.t THEN
         (IF pk.t \in {"PUBLISH", "PUBREL"} THEN V("C06", "unsolicited-" \o pk.t, <<pk.id, pk.dup>>)
          ELSE V("C05", "unsolicited-request", pk.t))
  ELSE LET m == Head(msgQ) IN
       IF SizeRejected(S, pk.len) THEN V("C12", "written-over-limit", <<pk.t, pk.len, S.M>>)
       ELSE IF m.kind = "AA" /\ pk.t = "PUBLISH" /\ S.quota = 0 /\ ~S.loose THEN V("C10", "written-over-quota", <<pk.id, S.R>>)
       ELSE IF pk.t = "PUBLISH" /\ pk.dup # 0 THEN V("C06", "dup-on-first-transmission", pk.id)
       ELSE IF ~FlagsOK(m, pk) THEN V("C06", "flags-or-topic", <<pk.t, pk.qos, pk.retain, pk.tag>>)
       ELSE IF ~IdOK(m, pk) THEN (IF pk.t = "PUBREL" THEN V("C06", "pubrel-id", <<pk.id, m.pk.id>>)
                                  ELSE V("C11", "packet-id", <<pk.t, pk.id>>))
       ELSE IF ~SidOK(pk) THEN V("C11", "subscription-id", pk.sids)
       ELSE IF ~LenOK(m, pk) THEN V("C01", "length", <<pk.t, pk.len, m.pk.len>>)
       ELSE V("C06", "request-mismatch", pk.t)

ExpectedWriteMissing ==
  IF Ln.e = "ctxe" /\ LostWakeupAhead(l + 1) THEN V(<<"C03", "C16">>, "lost-wakeup", <<Len(netIn), Len(msgQ), Ln.unread>>)
  ELSE IF blockedOn # <<>> THEN V("C08", "ack-missing", <<blockedOn[1].wr.t, blockedOn[1].wr.id>>)
  ELSE IF resumeQ # <<>> /\ ~Deciding THEN V("C17", "resume-missing", <<Head(resumeQ).t, Head(resumeQ).id>>)
  ELSE IF netIn # <<>> /\ HandlePkt(S, Head(netIn)).wr # <<>> /\ (msgQ = <<>> \/ Ln.unread = 0)
       THEN V("C08", "ack-missing", <<Head(netIn).t, Head(netIn).qos, Head(netIn).id, Len(Head(netIn).sids)>>)
  ELSE IF msgQ # <<>> THEN HeadNotWritten
  ELSE V(<<"C03", "C04">>, "stalled", <<Ln.unread>>)

\* a panic of the context is C04's concern whatever caused it; when the packet being handled is one the client owed an
\* acknowledgement (C08) or a delivery (C07) for, that obligation is broken by the same step (likewise when run() ends
\* on that packet although nothing ended the connection)
OwedTags ==
  (IF netIn # <<>> /\ HandlePkt(S, Head(netIn)).wr # <<>> THEN <<"C08">> ELSE <<>>)
  \* (an acknowledgement that some operation is waiting for: that operation never completes with it - C05)
  \o (IF netIn # <<>> /\ Head(netIn).t \in {"PUBACK", "PUBREC", "PUBCOMP", "SUBACK", "UNSUBACK", "PINGRESP"}
         /\ HandlePkt(S, Head(netIn)).comp # <<>> THEN <<"C05">> ELSE <<>>)
  \o (IF netIn # <<>> /\ Head(netIn).t = "PUBLISH" /\ Head(netIn).sids # <<>> THEN <<"C07">> ELSE <<>>)
PanicTags == <<"C04">> \o OwedTags

ClassifyCtxEnd(res) ==
  IF res.r = "panic" THEN V(PanicTags, "panic-in-context", IF "msg" \in DOMAIN res THEN res.msg ELSE "")
  ELSE IF res.r = "pending" THEN
         (IF inCtx = "spur" /\ ~NoWorkLeft THEN V(<<"C03", "C16">>, "work-without-wakeup", <<Len(msgQ), Len(netIn), Ln.unread>>)
          ELSE IF retd # <<>> THEN V("C13", "no-return", retd[1].kind)
          ELSE IF netIn = <<>> /\ msgQ = <<>> /\ netEnd # "open" THEN V("C13", "no-return", "SocketClosed")
          ELSE IF netIn = <<>> /\ msgQ = <<>> /\ ~HandlesAlive THEN V("C13", "no-return", "HandleClosed")
          ELSE IF netIn = <<>> /\ msgQ = <<>> /\ Ln.unread > 0 THEN Stall(Ln.unread)
          ELSE ExpectedWriteMissing)
  ELSE \* returned
       IF retd = <<>> THEN
         (IF res.kind = "InternalError" THEN V("C15", "run-returned-internal-error", <<>>)
          ELSE IF res.kind = "SocketClosed" /\ netEnd = "open"
               THEN V(<<"C03">> \o (IF inCtx = "spur" THEN <<"C16">> ELSE <<>>), "early-end-of-stream", Ln.unread)
          \* (run() ending with Ok although no DISCONNECT was written and none came, after a request was refused for its
          \* size: the refusal has stopped the context, later requests that fit are never written - C12 as well)
          \* (and after a cancellation: nothing but the cancelled caller's gone channel distinguishes this run from one that
          \* keeps serving - C15 as well)
          \* (run() gone with input unread while the reference, which has handled all of it, holds acknowledgements that
          \* operations have not collected yet: some operation whose acknowledgement did arrive is left pending - C05 as well)
          \* (and when it happens in a poll without wake-up, that poll had an effect: C16)
          ELSE V(<<"C13">> \o OwedTags \o (IF res.kind = "Ok" /\ g.szany > 0 /\ ~discW THEN <<"C12">> ELSE <<>>)
                          \o (IF inCtx = "spur" THEN <<"C16">> ELSE <<>>)
                          \o (IF Ln.unread > 0 /\ \E k \in DOMAIN ops : ops[k].slot # <<>> /\ ops[k].slot[1].k = "ack" THEN <<"C05">> ELSE <<>>)
                          \o (IF g.ncancel > 0 /\ HandlesAlive THEN <<"C15">> ELSE <<>>), "unexpected-return", res.kind))
       ELSE V("C13", "wrong-return", <<retd[1].kind, retd[1].rc, res.kind, res.rc>>)

ClassifyPollOp ==
  IF Ln.k \notin DOMAIN ops THEN V("C05", "completed-twice-or-unknown", Ln.k)
  ELSE LET want == StepOf(Ln.k).res got == Ln.res IN
    IF got.r = "panic" THEN
        (IF Ln.first = 1 THEN V("C11", "allocation-panic", IF "msg" \in DOMAIN got THEN got.msg ELSE "")
         ELSE IF want.kind = "ContextExited" THEN V(<<"C14", "C04">>, "panic-instead-of-context-exited", IF "msg" \in DOMAIN got THEN got.msg ELSE "")
         ELSE V("C04", "panic-in-operation", IF "msg" \in DOMAIN got THEN got.msg ELSE ""))
    ELSE IF SameRes(want, got) /\ Ln.woken = 0 THEN V("C16", "progress-without-wakeup", <<"op", Ln.k>>)
    ELSE IF want.r = "pending" /\ Ln.woken = 0 THEN
         \* a poll without wake-up must have no effect: here it completed the operation (with whatever result)
         V(<<"C16">> \o (IF got.kind = "ContextExited" THEN <<"C14">> ELSE <<"C05">>), "completed-by-a-poll-without-wakeup", <<ops[Ln.k].kind, got.r, got.kind>>)
    ELSE IF want.r = "pending" THEN
        \* (the operation is told "context exited" although the context is serving and its acknowledgement has not
        \* arrived: it completes without its own acknowledgement - C05 as well)
        (IF got.kind = "ContextExited" THEN V(<<"C14", "C05">>, "context-exited-while-alive", Ln.k)
         \* (for a publish this is also its handshake going wrong: it reported an outcome before the acknowledgement that
         \* decides it - e.g. a PUBREC below 0x80 taken for a refusal)
         ELSE V((IF ops[Ln.k].kind = "pub" THEN <<"C05", "C06">> ELSE <<"C05">>) \o (IF g.ncancel > 0 THEN <<"C15">> ELSE <<>>),
                "completed-without-own-ack", <<ops[Ln.k].kind, got.r, got.kind>>))
    ELSE IF got.r = "pending" THEN
        (IF want.kind = "ContextExited" THEN V("C14", "hangs-after-context-gone", <<ops[Ln.k].kind, ops[Ln.k].st>>)
         \* (a publish that does not report the outcome of its handshake when the handshake is over: C06 as well)
         ELSE V((IF ops[Ln.k].kind = "pub" THEN <<"C05", "C06">> ELSE <<"C05">>) \o (IF g.ncancel > 0 THEN <<"C15">> ELSE <<>>),
                "completion-withheld", <<ops[Ln.k].kind, want.r, want.kind>>))
    ELSE IF want.kind = "ContextExited" \/ got.kind = "ContextExited" THEN V("C14", "wrong-result-after-exit", <<want.kind, got.kind>>)
    ELSE IF got.kind = "QuotaExceeded" /\ ops[Ln.k].st = "wait2" THEN V(<<"C06", "C10", "C05">>, "pubrel-refused-by-quota", <<want.r, want.kind>>)
    ELSE IF want.kind = "MaximumPacketSizeExceeded" \/ got.kind = "MaximumPacketSizeExceeded"
         THEN V("C12", "size-result", <<want.kind, got.kind>>)    \* the size rule comes first; a size refusal the reference does not make is C12's too
    ELSE IF got.kind = "QuotaExceeded" /\ g.szrej > 0 THEN V(<<"C12", "C10">>, "refused-request-left-quota-behind", <<want.kind, got.kind, g.szrej>>)
    ELSE IF want.kind = "QuotaExceeded" \/ got.kind = "QuotaExceeded" THEN V("C10", "quota-result", <<want.kind, got.kind>>)
    ELSE IF got.kind = "MaximumPacketSizeExceeded" THEN V("C12", "size-result", <<want.kind, got.kind>>)
    ELSE IF ops[Ln.k].kind = "pub" THEN V("C06", "outcome", <<want.r, want.kind, want.rc, got.r, got.kind, got.rc>>)
    ELSE V(WithC15("C05"), "ack-content", <<want.x, got.x>>)

\* look-ahead (classification only): does a later poll of stream k WITHOUT a wake-up yield an item?  Then the items were
\* there and the stream had returned Pending without arranging its wake-up (C16), whatever else is wrong with the item.
RECURSIVE StreamProgressUnwoken(_, _)
StreamProgressUnwoken(k, i) ==
  IF i > N \/ Rec[i].e \in {"reset", "end"} THEN FALSE
  ELSE IF Rec[i].e = "pollst" /\ Rec[i].k = k /\ Rec[i].woken = 0 /\ Rec[i].res.r = "item" THEN TRUE
  ELSE StreamProgressUnwoken(k, i + 1)

ClassifyPollSt ==
  IF Ln.k \notin DOMAIN sts THEN V("C07", "unknown-stream", Ln.k)
  ELSE LET s == sts[Ln.k] want == StExpected(s) got == Ln.res IN
    IF got.r = "panic" THEN V("C04", "panic-in-stream", Ln.k)
    ELSE IF got.r = want /\ (want # "item" \/ SameItem(Head(s.buf), got.pk)) /\ Ln.woken = 0
         THEN V("C16", "progress-without-wakeup", <<"stream", Ln.k>>)
    \* (this stream has yielded that very message before - recognised by its content, or, when the re-delivery carries the
    \* topic in another form (alias alone), by its payload)
    ELSE IF got.r = "item" /\ got.pk.qos = 2 /\ got.pk.x \in supp /\ (got.pk.x \in s.seen2 \/ ("pd:" \o got.pk.pd) \in s.seen2)
         THEN V("C09", "redelivered", <<got.pk.tag>>)        \* this stream has yielded that very message before
    ELSE IF want = "end" /\ got.r = "pending" THEN V("C14", "stream-hangs-after-context-gone", Ln.k)
    ELSE IF want = "pending" /\ got.r = "end" THEN V(WithC15("C07"), "ended-early", Ln.k)
    ELSE IF want = "item" /\ got.r = "item" THEN V(WithC15("C07"), "wrong-item", <<Head(s.buf).tag, got.pk.tag, Head(s.buf).x, got.pk.x>>)
    ELSE IF want = "item" THEN
           \* (a QoS 2 message that never reaches the application is delivered zero times, not once: C09 as well)
           \* (and items buffered when the context went away must still be yielded before the stream ends: C14)
           LET more == (IF g.ncancel > 0 THEN <<"C15">> ELSE <<>>) \o (IF Head(s.buf).qos = 2 THEN <<"C09">> ELSE <<>>)
                       \o (IF ph = "gone" THEN <<"C14">> ELSE <<>>) IN
           (IF got.r = "pending" /\ StreamProgressUnwoken(Ln.k, l + 1)
            THEN V(<<"C07", "C16">> \o more, "item-withheld-until-polled-without-wakeup", <<Head(s.buf).tag, got.r>>)
            ELSE V(<<"C07">> \o more, "item-missing", <<Head(s.buf).tag, got.r>>))
    ELSE V(WithC15("C07"), "extra-item", <<got.pk.tag, got.pk.qos>>)

ClassifyQuiescent ==
  IF \E k \in DOMAIN ops : ops[k].st # "built" /\ ops[k].slot # <<>>
  THEN (IF ph = "gone" THEN V("C14", "operation-not-woken", <<>>) ELSE V(WithC15("C05"), "completion-not-delivered", <<>>))
  ELSE IF \E k \in DOMAIN sts : sts[k].pollable /\ (sts[k].buf # <<>> \/ ~sts[k].tx)
  THEN (IF ph = "gone" THEN V("C14", "stream-not-woken", <<>>) ELSE V(WithC15("C07"), "item-not-delivered", <<>>))
  ELSE IF retd # <<>> THEN V("C13", "no-return", retd[1].kind)
  ELSE IF netIn = <<>> /\ msgQ = <<>> /\ Ln.unread > 0 THEN V(<<"C03", "C04">>, "unread-input", Ln.unread)
  ELSE ExpectedWriteMissing

Classify ==
  CASE Ln.e = "wr"        -> ClassifyWr(Ln.pk)
    [] Ln.e = "ctxe"      -> ClassifyCtxEnd(Ln.res)
    [] Ln.e = "pollop"    -> ClassifyPollOp
    [] Ln.e = "pollst"    -> ClassifyPollSt
    [] Ln.e = "quiescent" -> ClassifyQuiescent
    [] Ln.e = "fuzz"      -> IF Ln.o1 = "panic" \/ Ln.o2 = "panic" \/ Ln.oppanic # 0
                               THEN V("C04", "panic", <<Ln.phase, Ln.case, Ln.msg>>)
                             ELSE IF Ln.o1 = "pending" /\ Ln.unread # 0 THEN V("C04", "stalled-with-unread-input", <<Ln.phase, Ln.case, Ln.unread>>)
                             ELSE V("C04", "no-return-after-transport-end", <<Ln.phase, Ln.case>>)
    [] Ln.e = "twr"       -> V("C11", "packet-id", <<Ln.t, Ln.id, "threads">>)
    [] Ln.e = "tdone"     -> V("C11", "operations-failed-or-missing", <<Ln.failed, Ln.written, Ln.expected>>)
    [] Ln.e = "abort"     -> V(<<"C03", "C04">>, "process-aborted", <<Ln.why, Ln.shard, Ln.completed>>)
    [] Ln.e = "disccmp"   -> V("C16", "outcome-depends-on-polling-discipline", <<Ln.variant, Ln.detail>>)
    [] Ln.e = "first"     -> IF Ln.res.r = "panic" THEN V(<<"C04", "C13">>, "panic-in-connect", <<Ln.inj, Ln.rc>>)   \* no outcome at all
                             ELSE V("C13", "first-response", <<Ln.phase, Ln.inj, Ln.rc, Ln.res.kind, Ln.res.rc>>)
    [] Ln.e = "reconnect" /\ Ln.ok = 0 /\ ph = "ret"
                          -> V("C13", "connect-on-a-new-transport-did-not-return-the-connack", <<>>)
    [] Ln.e = "livelock"  -> V(<<"C16", "C04">>, "task-keeps-waking-itself-without-progress", <<>>)
    [] OTHER              -> V("TOOL", "unmatched-environment-line", Ln.e)

Diverge ==
  /\ Ok /\ l <= N /\ Ln.e \notin {"reset", "end"}
  /\ ~ENABLED Normal
  /\ verdict' = Classify
  /\ mode' = "tainted"
  /\ UNCHANGED <<l, cfg, S, msgQ, netIn, netEnd, wrm, ph, inCtx, retd, ops, sts, nh, discW, g, resumeQ, supp, secsAgo, blockedOn>>

Skip ==
  /\ mode = "tainted" /\ l <= N /\ Ln.e \notin {"reset", "end"} /\ Adv
  /\ UNCHANGED <<mode, verdict, cfg, S, msgQ, netIn, netEnd, wrm, ph, inCtx, retd, ops, sts, nh, discW, g,
                 resumeQ, supp, secsAgo, blockedOn>>

Init ==
  /\ l = 1 /\ mode = "ok" /\ verdict = <<>>
  /\ cfg = [run |-> 0, fam |-> "", recon |-> 0]
  /\ S = InitS(1, 0) /\ msgQ = <<>> /\ netIn = <<>> /\ netEnd = "open" /\ wrm = "accept"
  /\ ph = "run" /\ inCtx = "no" /\ retd = <<>> /\ ops = <<>> /\ sts = <<>> /\ nh = 1 /\ discW = FALSE
  /\ g = [ids |-> {}, sids |-> {}, nsub |-> 0, szrej |-> 0, szany |-> 0, ncancel |-> 0] /\ resumeQ = <<>> /\ supp = {} /\ secsAgo = <<>> /\ blockedOn = <<>>

Next == Reset \/ End \/ Normal \/ Diverge \/ Skip

Spec == Init /\ [][Next]_vars

=============================================================================
