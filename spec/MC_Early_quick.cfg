SPECIFICATION Spec
CONSTANTS
  NOps = 3
  Kinds = {"pub1", "pub2", "sub", "huge1"}
  Rmax = 2
  Msz = 10
  IdN = 3
  MaxIn = 0
  InQos = {}
  InIds = {}
  Reasons = {0}
  MaxCancel = 0
  MaxSpur = 0
  Endings = {}
  SeiSet = {"never"}
  ReR = {2}
  ReM = {10}
  Handshake = "auth"
  RecordSched = FALSE
  Dev = {}
VIEW view
CONSTRAINT Proviso
INVARIANTS TypeOK Inv_C05 Inv_C06 Inv_C10 Inv_C11 Inv_C12 NoLostWakeup QuotaRestored
CHECK_DEADLOCK FALSE
