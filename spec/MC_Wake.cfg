SPECIFICATION Spec
CONSTANTS
  NOps = 2
  Kinds = {"pub1", "pub2", "sub", "ping"}
  Rmax = 1
  Msz = 0
  IdN = 3
  MaxIn = 2
  InQos = {0, 1}
  InIds = {1}
  Reasons = {0, 128}
  MaxCancel = 0
  MaxSpur = 3
  Endings = {"ctxdrop"}
  SeiSet = {"never"}
  ReR = {1}
  ReM = {0}
  Handshake = "none"
  RecordSched = FALSE
  Dev = {}
VIEW view
CONSTRAINT Proviso
INVARIANTS TypeOK Inv_C05 Inv_C07 Inv_C14 Inv_C16 NoLostWakeup
CHECK_DEADLOCK FALSE
