SPECIFICATION Spec
CONSTANTS
  NOps = 3
  Kinds = {"pub1", "pub2"}
  Rmax = 2
  Msz = 0
  IdN = 3
  MaxIn = 0
  InQos = {}
  InIds = {}
  Reasons = {0, 128}
  MaxCancel = 0
  MaxSpur = 0
  Endings = {"eof", "resume"}
  SeiSet = {"zero", "finite", "never"}
  ReR = {2}
  ReM = {0}
  Handshake = "none"
  RecordSched = FALSE
  Dev = {}
VIEW view
CONSTRAINT Proviso
INVARIANTS TypeOK Inv_C05 Inv_C06 Inv_C10 Inv_C11 Inv_C17 NoLostWakeup
CHECK_DEADLOCK FALSE
