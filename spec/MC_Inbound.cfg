SPECIFICATION Spec
CONSTANTS
  NOps = 2
  Kinds = {"sub", "unsub"}
  Rmax = 2
  Msz = 0
  IdN = 3
  MaxIn = 3
  InQos = {0, 1, 2}
  InIds = {1, 2}
  Reasons = {0}
  MaxCancel = 1
  MaxSpur = 0
  Endings = {}
  SeiSet = {"never"}
  ReR = {2}
  ReM = {0}
  Handshake = "none"
  RecordSched = FALSE
  Dev = {}
VIEW view
CONSTRAINT Proviso
INVARIANTS TypeOK Inv_C05 Inv_C07 Inv_C08 Inv_C09 Inv_C13 Inv_C15 Inv_C16 NoLostWakeup
CHECK_DEADLOCK FALSE
