SPECIFICATION FairSpec
CONSTANTS
  NOps = 2
  Kinds = {"pub2", "sub"}
  Rmax = 2
  Msz = 0
  IdN = 3
  MaxIn = 1
  InQos = {1}
  InIds = {1}
  Reasons = {0, 128}
  MaxCancel = 0
  MaxSpur = 0
  Endings = {"ctxdrop"}
  SeiSet = {"never"}
  ReR = {2}
  ReM = {0}
  Handshake = "none"
  RecordSched = FALSE
  Dev = {}
INVARIANTS TypeOK Inv_C14 NoLostWakeup
PROPERTIES Live_C14 Live_C16
CHECK_DEADLOCK FALSE
