SPECIFICATION Spec
CONSTANTS
  NOps = 3
  Kinds = {"pub1", "pub2", "huge1"}
  Rmax = 2
  Msz = 10
  IdN = 3
  MaxIn = 0
  InQos = {}
  InIds = {}
  Reasons = {0}
  MaxCancel = 0
  MaxSpur = 0
  Endings = {"eof", "resume"}
  SeiSet = {"zero", "never"}
  ReR = {1, 2, 3}
  ReM = {0, 10}
  Handshake = "none"
  RecordSched = FALSE
  Dev = {}
VIEW view
CONSTRAINT Proviso
INVARIANTS TypeOK Inv_C05 Inv_C06 Inv_C10 Inv_C11 Inv_C12 Inv_C17 NoLostWakeup QuotaRestored
CHECK_DEADLOCK FALSE
