SPECIFICATION Spec
CONSTANTS
  Pkts <- PktsQuick
  Dev = {}
INVARIANTS TypeOK ChunkIndependent NoLostWakeup NoEarlyEnd EmitOrder
CHECK_DEADLOCK FALSE
