------------------------------- MODULE Poster -------------------------------
(* Design model of the poster-rs session layer: the context actor, any number of handle        *)
(* operations (caller-side futures), subscription streams, a broker and a wake-only executor.   *)
(* The actor and the caller-side state machines are the reference transition functions of       *)
(* PosterCore (the same ones PosterTrace.tla replays along traces of the real client); the       *)
(* environment - which operations are started, when futures are polled or dropped, what the      *)
(* broker sends and in which order, when the transport ends - is nondeterministic.               *)
(*                                                                                               *)
(* The listed properties C05..C16 are stated over *observer* variables (g) that are updated only  *)
(* from what crosses the public boundary (packets written, packets handled, results and items     *)
(* handed to the caller), independently of the actor's own bookkeeping.  CONSTANT Dev switches    *)
(* single reference clauses to a deviant behaviour (the behaviours the pinned poster-rs had      *)
(* before the fix: commits, and a few more): with Dev = {} every invariant holds, with one        *)
(* deviation the invariant of the property it is listed under fails (negative controls).          *)
EXTENDS PosterCore, TLC, Json

CONSTANTS
  NOps,        \* number of operation slots (each used at most once)
  Kinds,       \* subset of {"pub0","pub1","pub2","sub","unsub","ping","disc","big1","huge1"}
  Rmax,        \* Receive Maximum announced by the server
  Msz,         \* Maximum Packet Size: 0 = none; requests of kind "big1" are 10 bytes, "huge1" 11 bytes, all others 2
  IdN,         \* size of the packet identifier space (wraps, skipping 0)
  MaxIn,       \* number of inbound PUBLISH/PUBREL the broker may send
  InQos,       \* QoS levels of inbound PUBLISH
  InIds,       \* packet identifiers the broker uses for inbound PUBLISH
  Reasons,     \* reason codes the broker puts into PUBACK/PUBREC/PUBCOMP
  MaxCancel,   \* how many futures/streams may be dropped
  MaxSpur,     \* how many polls without a wake-up
  Endings,     \* subset of {"eof","ctxdrop","srvdisc","handles","resume"}
  SeiSet,      \* session expiry intervals to consider: subset of {"zero", "finite", "never"}  (C17)
  ReR,         \* Receive Maximum values the CONNACK of a second connection may announce (C10 across connections)
  ReM,         \* Maximum Packet Size values it may announce, 0 = none (C12 across connections)
  Handshake,   \* "none": the model starts with run() serving an established connection; "plain" / "auth": it starts inside
               \* connect() - operations may be started and polled (their requests wait in the channel) before the CONNACK
               \* arrives; with "auth" the server first sends an AUTH challenge that the user answers with authorize()
  RecordSched, \* TRUE: keep the behaviour as a harness script in `sched` (simulation export); FALSE: sched stays empty
  Dev          \* deviations switched on

VARIABLES
  S, msgQ, netIn, netEnd, ph, cret,
  ops,         \* [1..NOps -> operation record]
  sts,         \* [1..NOps -> stream record] (meaningful for subscribe operations)
  nextPid, nextSid, handles,
  bk,          \* broker: requests received and not yet acknowledged, set of <<acktype, id, op>>
  bq2,         \* broker: inbound QoS 2 identifiers sent and not yet released (with their content tag)
  nIn, nCancel, nSpur, nTag,
  resumeQ,     \* what a resumed session still has to re-send before anything else (C17)
  nResume,     \* number of reconnections so far
  woken,       \* tasks whose waker has fired and that have not been polled since
  g,           \* observers
  sched        \* the behaviour as a harness script (history; hidden by the VIEW)

vars == <<S, msgQ, netIn, netEnd, ph, cret, ops, sts, nextPid, nextSid, handles, bk, bq2, nIn, nCancel, nSpur, nTag, resumeQ, nResume, woken, g, sched>>
view == <<S, msgQ, netIn, netEnd, ph, cret, ops, sts, nextPid, nextSid, handles, bk, bq2, nIn, nCancel, nSpur, nTag, resumeQ, nResume, woken, g>>

Ops == 1..NOps
MaxR == CHOOSE r \in ReR \cup {Rmax} : \A q \in ReR \cup {Rmax} : q <= r
D(d) == d \in Dev

KindOf(k) == CASE k \in {"pub0", "pub1", "pub2", "big1", "huge1"} -> "pub" [] OTHER -> k
QosOf(k)  == CASE k \in {"pub1", "big1", "huge1"} -> 1 [] k = "pub2" -> 2 [] OTHER -> 0
LenOf(k)  == IF k = "big1" THEN 10 ELSE IF k = "huge1" THEN 11 ELSE 2
TypeOf(k) == CASE KindOf(k) = "pub" -> "PUBLISH" [] k = "sub" -> "SUBSCRIBE" [] k = "unsub" -> "UNSUBSCRIBE"
               [] k = "ping" -> "PINGREQ" [] OTHER -> "DISCONNECT"
UsesId(k) == k \in {"pub1", "pub2", "big1", "huge1", "sub", "unsub"}

NoOp == [kind |-> "none", qos |-> 0, st |-> "unused", slot |-> <<>>, req |-> NoPk, sid |-> 0, res |-> Pending, k |-> "none"]
NoSt == [buf |-> <<>>, tx |-> FALSE, rx |-> FALSE, pollable |-> FALSE]

NextId(c) == IF D("ZeroIdOnWrap") THEN (c + 1) % (IdN + 1) ELSE IF c = IdN THEN 1 ELSE c + 1

Sch(step) == sched' = IF RecordSched THEN Append(sched, step) ELSE sched
CtxT == <<"ctx", 0>>

Init ==
  /\ S = InitS(Rmax, IF Handshake = "none" THEN Msz ELSE 0)   \* (nothing is served before the CONNACK; its limits are set by HsConnack)
  /\ msgQ = <<>> /\ netIn = <<>> /\ netEnd = "open" /\ ph = (IF Handshake = "none" THEN "run" ELSE "conn") /\ cret = <<>>
  /\ ops = [o \in Ops |-> NoOp] /\ sts = [o \in Ops |-> NoSt]
  /\ nextPid = 1 /\ nextSid = 1 /\ handles = 1
  /\ bk = {} /\ bq2 = {} /\ nIn = 0 /\ nCancel = 0 /\ nSpur = 0 /\ nTag = 0
  /\ resumeQ = <<>> /\ nResume = 0
  /\ woken = (IF Handshake = "none" THEN {CtxT} ELSE {})
  /\ \E sei0 \in SeiSet : g = [sei |-> sei0, R |-> Rmax, M |-> Msz, chal |-> 0, allocs |-> <<>>, out |-> 0, ids |-> {}, req |-> <<>>, acked |-> {}, subs |-> {}, rx2 |-> {}, exp |-> [o \in Ops |-> <<>>], yielded |-> [o \in Ops |-> {}],
          discW |-> FALSE, causes |-> {}, unacked |-> <<>>, owed |-> <<>>, everSent |-> <<>>, bad |-> {}]
  /\ sched = <<>>

Task(kind, o) == <<kind, o>>
Bad(c) == [g EXCEPT !.bad = @ \cup {c}]

\* ---------------------------------------------------------------------------------------------
\* callers

Call(o, k) ==
  /\ ops[o].st = "unused" /\ handles > 0 /\ k \in Kinds
  /\ \A p \in Ops : p < o => ops[p].st # "unused"                      \* slots are used in order (symmetry)
  /\ ops' = [ops EXCEPT ![o] = [NoOp EXCEPT !.kind = KindOf(k), !.qos = QosOf(k), !.st = "built", !.k = k,
                                            !.req = [NoPk EXCEPT !.t = TypeOf(k), !.qos = QosOf(k), !.len = LenOf(k), !.tag = ToString(o)]]]
  /\ woken' = woken \cup {Task("op", o)}
  /\ Sch([a |-> "call", op |-> o, k |-> k])
  /\ UNCHANGED <<S, msgQ, netIn, netEnd, ph, cret, sts, nextPid, nextSid, handles, bk, bq2, nIn, nCancel, nSpur, nTag, resumeQ, nResume, g>>

\* one poll of the future of operation o (the executor polls it because it was woken, or spuriously)
DoPollOp(o, spurious) ==
  LET first == ops[o].st = "built"
      k     == ops[o].k
      pid   == IF first /\ UsesId(k) THEN nextPid ELSE ops[o].req.id
      sid   == IF first /\ k = "sub" THEN nextSid ELSE ops[o].sid
      o1    == IF first THEN [ops[o] EXCEPT !.req = [@ EXCEPT !.id = pid], !.sid = sid] ELSE ops[o]
      st    == OpStep(o, o1, ph # "gone")
      gone  == st.fin
  IN
  /\ ops' = [ops EXCEPT ![o] = IF gone THEN [st.o EXCEPT !.st = "done", !.res = st.res] ELSE st.o]
  /\ msgQ' = msgQ \o st.enq
  /\ nextPid' = IF first /\ UsesId(k) /\ ph # "gone" THEN NextId(nextPid) ELSE nextPid
  /\ nextSid' = IF first /\ k = "sub" /\ ph # "gone" THEN nextSid + 1 ELSE nextSid
  /\ woken' = (woken \ {Task("op", o)}) \cup (IF st.enq # <<>> THEN {CtxT} ELSE {})
                  \cup (IF gone /\ ops[o].kind = "sub" /\ st.res.r = "ok" THEN {Task("st", o)} ELSE {})
  /\ sts' = IF gone /\ ops[o].kind = "sub"
            THEN (IF st.res.r = "ok" THEN [sts EXCEPT ![o].pollable = TRUE] ELSE [sts EXCEPT ![o].rx = FALSE])
            ELSE sts
  /\ g' = LET g1 == IF spurious /\ (st.res # Pending \/ st.enq # <<>>) THEN Bad(<<"C16", "spurious-poll-had-effect">>) ELSE g
              \* C05: a result built from an acknowledgement must be built from the operation's own one
              g2 == IF gone /\ ops[o].slot # <<>> /\ ops[o].slot[1].k = "ack"
                       /\ ~(\E r \in g.acked : r[3] = o /\ r[1] = ops[o].slot[1].pk.t /\ r[2] = ops[o].slot[1].pk.id
                                              /\ r[4] = ops[o].slot[1].pk.rc)
                    THEN [g1 EXCEPT !.bad = @ \cup {<<"C05", "result-not-from-own-ack">>}] ELSE g1
              \* C06: outcome mapping
              g3 == IF gone /\ ops[o].kind = "pub" /\ ops[o].slot # <<>> /\ ops[o].slot[1].k = "ack" /\ st.res.kind # "ContextExited"
                       /\ ((IsFail(ops[o].slot[1].pk.rc) /\ st.res.r # "err") \/ (~IsFail(ops[o].slot[1].pk.rc) /\ st.res.r # "ok"))
                    THEN [g2 EXCEPT !.bad = @ \cup {<<"C06", "outcome">>}] ELSE g2
              \* C14: after the context is gone every poll ends the operation with ContextExited (or its earlier result)
              g4 == IF ph = "gone" /\ ~gone THEN [g3 EXCEPT !.bad = @ \cup {<<"C14", "pending-after-context-gone">>}] ELSE g3
              \* the order in which identifiers were handed out (for the proviso of C11 only)
          IN [g4 EXCEPT !.allocs = IF first /\ UsesId(k) /\ ph # "gone" THEN Append(@, o) ELSE @]

PollOp(o) ==
  /\ ops[o].st \in {"built", "wait1", "wait2"} /\ Task("op", o) \in woken
  /\ DoPollOp(o, FALSE)
  /\ Sch([a |-> "poll", t |-> "op", k |-> o])
  /\ UNCHANGED <<S, netIn, netEnd, ph, cret, handles, bk, bq2, nIn, nCancel, nSpur, nTag, resumeQ, nResume>>

SpurPollOp(o) ==
  /\ ops[o].st \in {"wait1", "wait2"} /\ Task("op", o) \notin woken /\ nSpur < MaxSpur
  /\ DoPollOp(o, TRUE) /\ nSpur' = nSpur + 1
  /\ Sch([a |-> "poll", t |-> "op", k |-> o])
  /\ UNCHANGED <<S, netIn, netEnd, ph, cret, handles, bk, bq2, nIn, nCancel, nTag, resumeQ, nResume>>

DropOp(o) ==
  /\ ops[o].st \in {"built", "wait1", "wait2"} /\ nCancel < MaxCancel
  /\ ops' = [ops EXCEPT ![o].st = "dropped"]
  /\ sts' = IF ops[o].kind = "sub" THEN [sts EXCEPT ![o].rx = FALSE] ELSE sts
  /\ woken' = woken \ {Task("op", o)}
  /\ nCancel' = nCancel + 1
  /\ Sch([a |-> "drop", t |-> "op", k |-> o])
  /\ UNCHANGED <<S, msgQ, netIn, netEnd, ph, cret, nextPid, nextSid, handles, bk, bq2, nIn, nSpur, nTag, resumeQ, nResume, g>>

\* one poll of the stream of subscribe call o
DoPollSt(o, spurious) ==
  LET s == sts[o]
      r == IF s.buf # <<>> THEN "item" ELSE IF s.tx THEN "pending" ELSE "end" IN
  /\ sts' = CASE r = "item" -> [sts EXCEPT ![o].buf = Tail(@)]
              [] r = "end"  -> [sts EXCEPT ![o].pollable = FALSE, ![o].rx = FALSE]
              [] OTHER -> sts
  /\ woken' = IF r = "item" THEN woken \cup {Task("st", o)} ELSE woken \ {Task("st", o)}
  /\ g' = LET g1 == IF spurious /\ r # "pending" THEN Bad(<<"C16", "spurious-poll-had-effect">>) ELSE g
              \* C07 / C09: what is yielded is the next message this stream is owed; nothing is owed when it reports Pending or ends
              g2 == IF r = "item" /\ (g.exp[o] = <<>> \/ Head(g.exp[o]) # Head(s.buf).tag)
                    THEN [g1 EXCEPT !.bad = @ \cup {IF Head(s.buf).qos = 2 /\ Head(s.buf).tag \in g.yielded[o] THEN <<"C09", "redelivered">> ELSE <<"C07", "wrong-or-unexpected-item">>}]
                    ELSE IF r # "item" /\ g.exp[o] # <<>> THEN [g1 EXCEPT !.bad = @ \cup {<<"C07", "item-lost">>}]
                    ELSE IF r = "end" /\ ph # "gone" THEN [g1 EXCEPT !.bad = @ \cup {<<"C07", "ended-while-context-alive">>}]
                    ELSE g1
          IN [g2 EXCEPT !.exp[o] = IF r = "item" /\ @ # <<>> THEN Tail(@) ELSE @,
                        !.yielded[o] = IF r = "item" THEN @ \cup {Head(s.buf).tag} ELSE @]

PollSt(o) ==
  /\ sts[o].pollable /\ Task("st", o) \in woken
  /\ DoPollSt(o, FALSE)
  /\ Sch([a |-> "poll", t |-> "st", k |-> o])
  /\ UNCHANGED <<S, msgQ, netIn, netEnd, ph, cret, ops, nextPid, nextSid, handles, bk, bq2, nIn, nCancel, nSpur, nTag, resumeQ, nResume>>

SpurPollSt(o) ==
  /\ sts[o].pollable /\ Task("st", o) \notin woken /\ nSpur < MaxSpur
  /\ DoPollSt(o, TRUE) /\ nSpur' = nSpur + 1
  /\ Sch([a |-> "poll", t |-> "st", k |-> o])
  /\ UNCHANGED <<S, msgQ, netIn, netEnd, ph, cret, ops, nextPid, nextSid, handles, bk, bq2, nIn, nCancel, nTag, resumeQ, nResume>>

DropSt(o) ==
  /\ sts[o].pollable /\ nCancel < MaxCancel
  /\ sts' = [sts EXCEPT ![o].pollable = FALSE, ![o].rx = FALSE, ![o].buf = <<>>]
  /\ woken' = woken \ {Task("st", o)}
  /\ nCancel' = nCancel + 1
  /\ g' = [g EXCEPT !.exp[o] = <<>>]
  /\ Sch([a |-> "drop", t |-> "st", k |-> o])
  /\ UNCHANGED <<S, msgQ, netIn, netEnd, ph, cret, ops, nextPid, nextSid, handles, bk, bq2, nIn, nSpur, nTag, resumeQ, nResume>>

DropHandle ==
  /\ handles > 0 /\ "handles" \in Endings /\ \A o \in Ops : ops[o].st # "built"
  /\ handles' = handles - 1
  /\ woken' = woken \cup {CtxT}
  /\ Sch([a |-> "drop", t |-> "h", k |-> 0])
  /\ UNCHANGED <<S, msgQ, netIn, netEnd, ph, cret, ops, sts, nextPid, nextSid, bk, bq2, nIn, nCancel, nSpur, nTag, resumeQ, nResume, g>>

\* ---------------------------------------------------------------------------------------------
\* the actor, with the switchable deviations

HandleMsgD(St, m) ==
  LET ref == HandleMsg(St, m) IN
  IF D("SizeCheckAfterQuota") /\ m.kind = "AA" /\ m.pk.t = "PUBLISH" /\ SizeRejected(St, m.pk.len) /\ St.quota > 0
    THEN [ref EXCEPT !.S = [St EXCEPT !.quota = @ - 1]]
  ELSE IF D("SizeLimitOffByOne") /\ St.M # 0 /\ m.pk.len = St.M
    THEN HandleMsg([St EXCEPT !.M = @ - 1], m)
  ELSE IF D("DupOnFirst") /\ ref.wr # <<>> /\ ref.wr[1].t = "PUBLISH" /\ ref.wr[1].qos > 0
    THEN [ref EXCEPT !.wr = <<[ref.wr[1] EXCEPT !.dup = 1]>>]
  ELSE IF D("NoReturnOnDisconnect") THEN [ref EXCEPT !.ret = <<>>]
  ELSE IF D("QuotaOffByOne") /\ m.kind = "AA" /\ m.pk.t = "PUBLISH" /\ St.quota = 0
    THEN HandleMsg([St EXCEPT !.quota = 1], m)
  ELSE ref

HandlePktD(St, p) ==
  LET ref == HandlePkt(St, p) IN
  IF D("AckOnlyWithSid") /\ p.t = "PUBLISH" /\ p.sids = <<>> THEN [ref EXCEPT !.wr = <<>>]
  ELSE IF D("NoDedupe") /\ p.t = "PUBLISH" /\ p.qos = 2 THEN HandlePkt([St EXCEPT !.rx2 = {}], p)
  ELSE IF D("LastSidOnly") /\ p.t = "PUBLISH" /\ Len(p.sids) > 1
    THEN HandlePkt(St, [p EXCEPT !.sids = <<p.sids[Len(p.sids)]>>])
  ELSE IF D("FanOutToAll") /\ p.t = "PUBLISH"
    THEN [ref EXCEPT !.deliv = [i \in 1..Len(St.subs) |-> [st |-> St.subs[i].st, pk |-> p]]]
  ELSE IF D("NoFreeOnFailedPubrec") /\ p.t = "PUBREC" /\ IsFail(p.rc)
    THEN [ref EXCEPT !.S = [@ EXCEPT !.quota = St.quota]]
  ELSE IF D("CompleteByTypeOnly") /\ p.t \in {"PUBACK", "PUBREC", "PUBCOMP", "SUBACK", "UNSUBACK"}
    THEN LET k == FirstIdx(St.await, LAMBDA e : e.key[1] = p.t) IN
         IF k = 0 THEN ref
         ELSE [ref EXCEPT !.S = [@ EXCEPT !.await = DropAt(St.await, k)],
                          !.comp = <<[op |-> St.await[k].op, slot |-> SlotAck(p)]>>]
  ELSE IF D("WrongAckType") /\ p.t = "PUBLISH" /\ p.qos = 2 THEN [ref EXCEPT !.wr = <<Ack("PUBACK", p.id)>>]
  ELSE IF D("ReturnOnSuback") /\ p.t = "SUBACK" THEN [ref EXCEPT !.ret = <<Res("ret", "Ok", 0, "")>>]
  ELSE ref

CtxCanStepAny == ph = "run" /\ cret = <<>> /\ CtxT \in woken
CtxCanStep == CtxCanStepAny /\ resumeQ = <<>>

ExpectedAck(p) == IF p.t = "PUBLISH" /\ p.qos = 1 THEN <<Ack("PUBACK", p.id)>>
                  ELSE IF p.t = "PUBLISH" /\ p.qos = 2 THEN <<Ack("PUBREC", p.id)>>
                  ELSE IF p.t = "PUBREL" THEN <<Ack("PUBCOMP", p.id)>> ELSE <<>>

\* applying completions and deliveries; a completion for a dropped future is absorbed (C15)
RECURSIVE CompOps(_, _)
CompOps(o, comp) ==
  IF comp = <<>> THEN o
  ELSE LET c == Head(comp) IN
       CompOps(IF o[c.op].st \in {"wait1", "wait2"} THEN [o EXCEPT ![c.op].slot = <<c.slot>>] ELSE o, Tail(comp))
CompWoken(comp) == {Task("op", comp[i].op) : i \in {j \in 1..Len(comp) : ops[comp[j].op].st \in {"wait1", "wait2"}}}
RECURSIVE DelivSts(_, _)
DelivSts(s, dl) ==
  IF dl = <<>> THEN s
  ELSE LET d == Head(dl) IN DelivSts(IF s[d.st].rx THEN [s EXCEPT ![d.st].buf = Append(@, d.pk)] ELSE s, Tail(dl))
DelivWoken(dl) == {Task("st", dl[i].st) : i \in {j \in 1..Len(dl) : sts[dl[j].st].rx /\ sts[dl[j].st].pollable}}

DroppedComp(comp) == \E i \in 1..Len(comp) : ops[comp[i].op].st \notin {"wait1", "wait2"}

CtxTakeMsg ==
  /\ CtxCanStep /\ msgQ # <<>>
  /\ LET m == Head(msgQ) out == HandleMsgD(S, m)
         wrote == out.wr # <<>>
         pk == IF wrote THEN out.wr[1] ELSE NoPk
         isNewPub == wrote /\ pk.t = "PUBLISH" /\ pk.qos > 0
         usesId == wrote /\ (isNewPub \/ pk.t \in {"SUBSCRIBE", "UNSUBSCRIBE"})
         ackt == AckTypeFor(pk.t, pk.qos)
     IN
     /\ S' = out.S
     /\ ops' = CompOps(ops, out.comp)
     /\ sts' = IF wrote /\ m.kind = "SUB" /\ ops[m.op].st \in {"wait1"} THEN [sts EXCEPT ![m.op] = [NoSt EXCEPT !.tx = TRUE, !.rx = TRUE]] ELSE sts
     /\ cret' = out.ret
     /\ woken' = woken \cup (IF D("NoWakeOnComplete") THEN {} ELSE CompWoken(out.comp))
     /\ bk' = IF wrote /\ ackt # "NONE" THEN bk \cup {<<ackt, IF pk.t = "PINGREQ" THEN 0 ELSE pk.id, m.op>>} ELSE bk
     /\ g' = LET b1 == IF isNewPub /\ g.out + 1 > g.R /\ ~(nResume > 0 /\ S.loose) THEN {<<"C10", "receive-maximum-exceeded">>} ELSE {}
                 b2 == IF usesId /\ (pk.id = 0 \/ pk.id \in g.ids) THEN {<<"C11", "identifier-zero-or-in-use">>} ELSE {}
                 b3 == IF wrote /\ pk.t = "PUBLISH" /\ pk.dup # 0 THEN {<<"C06", "dup-on-first-transmission">>} ELSE {}
                 b4 == IF wrote /\ g.M # 0 /\ pk.len > g.M THEN {<<"C12", "written-over-limit">>} ELSE {}
                 b5 == IF ~wrote /\ \E i \in 1..Len(out.comp) : out.comp[i].slot.res.kind = "QuotaExceeded" /\ g.out < g.R
                       THEN {<<"C10", "refused-below-receive-maximum">>} ELSE {}
                 b6 == IF ~wrote /\ (g.M = 0 \/ m.pk.len <= g.M) /\ \E i \in 1..Len(out.comp) : out.comp[i].slot.res.kind = "MaximumPacketSizeExceeded"
                       THEN {<<"C12", "refused-within-limit">>} ELSE {}
                 b7 == IF ~wrote /\ out.S # S
                       THEN {IF \E i \in 1..Len(out.comp) : out.comp[i].slot.res.kind = "QuotaExceeded"
                             THEN <<"C10", "refused-request-left-something-behind">> ELSE <<"C12", "refused-request-left-something-behind">>}
                       ELSE {}
                 b8 == IF wrote /\ g.discW THEN {<<"C13", "write-after-disconnect">>} ELSE {}
                 b9 == IF wrote /\ pk.t = "SUBSCRIBE" /\ \E r \in g.subs : r[1] = m.sid THEN {<<"C11", "subscription-identifier-reused">>} ELSE {}
                 b10 == IF wrote /\ g.owed # <<>> THEN {<<"C17", "new-traffic-before-retransmission">>} ELSE {}
             IN [g EXCEPT !.bad = @ \cup b1 \cup b2 \cup b3 \cup b4 \cup b5 \cup b6 \cup b7 \cup b8 \cup b9 \cup b10,
                          !.unacked = IF isNewPub \/ (wrote /\ pk.t = "PUBREL") THEN Append(@, pk) ELSE @,
                          !.everSent = IF isNewPub \/ (wrote /\ pk.t = "PUBREL") THEN Append(@, [t |-> pk.t, id |-> pk.id, pk |-> pk]) ELSE @,
                          !.out = IF isNewPub THEN @ + 1 ELSE @,
                          !.ids = IF usesId THEN @ \cup {pk.id} ELSE @,
                          !.req = IF wrote /\ ackt # "NONE" THEN Append(@, <<ackt, IF pk.t = "PINGREQ" THEN 0 ELSE pk.id, m.op>>) ELSE @,
                          !.subs = IF wrote /\ pk.t = "SUBSCRIBE" THEN @ \cup {<<m.sid, m.op>>} ELSE @,
                          !.discW = @ \/ (wrote /\ pk.t = "DISCONNECT"),
                          !.causes = IF wrote /\ pk.t = "DISCONNECT" THEN @ \cup {"userdisc"} ELSE @]
  /\ msgQ' = Tail(msgQ)
  /\ Sch([a |-> "poll", t |-> "ctx", k |-> 0])
  /\ UNCHANGED <<netIn, netEnd, ph, nextPid, nextSid, handles, bq2, nIn, nCancel, nSpur, nTag, resumeQ, nResume>>

CtxTakePkt ==
  /\ CtxCanStep /\ netIn # <<>>
  /\ LET p == Head(netIn) out == HandlePktD(S, p)
         isAck == p.t \in AckTypes
         \* the observer's own attribution of an acknowledgement: the oldest request of that type and identifier
         mineIdx == FirstIdx(g.req, LAMBDA r : r[1] = p.t /\ r[2] = (IF p.t = "PINGRESP" THEN 0 ELSE p.id))
         owner == IF mineIdx = 0 THEN 0 ELSE g.req[mineIdx][3]
         ends == p.t \in {"PUBACK", "PUBCOMP", "SUBACK", "UNSUBACK"} \/ (p.t = "PUBREC" /\ IsFail(p.rc))
         frees == p.t \in {"PUBACK", "PUBCOMP"} \/ (p.t = "PUBREC" /\ IsFail(p.rc))
         redeliv == p.t = "PUBLISH" /\ p.qos = 2 /\ p.id \in g.rx2
         targets == IF p.t = "PUBLISH" /\ ~redeliv THEN {r \in g.subs : \E i \in 1..Len(p.sids) : p.sids[i] = r[1]} ELSE {}
     IN
     /\ S' = IF D("InternalErrorOnDroppedOp") /\ DroppedComp(out.comp) THEN S ELSE out.S
     /\ ops' = CompOps(ops, out.comp)
     /\ sts' = DelivSts(sts, out.deliv)
     /\ cret' = IF D("InternalErrorOnDroppedOp") /\ DroppedComp(out.comp) THEN <<Res("ret", "InternalError", 0, "")>> ELSE out.ret
     /\ woken' = woken \cup (IF D("NoWakeOnComplete") THEN {} ELSE CompWoken(out.comp)) \cup DelivWoken(out.deliv)
     /\ g' = LET b1 == IF out.wr # ExpectedAck(p) THEN {<<"C08", "acknowledgement-missing-or-wrong">>} ELSE {}
                 b2 == IF isAck /\ owner # 0 /\ ops[owner].st \in {"wait1", "wait2"}
                          /\ ~(\E i \in 1..Len(out.comp) : out.comp[i].op = owner /\ out.comp[i].slot.k = "ack" /\ out.comp[i].slot.pk = p)
                       THEN {<<"C05", "own-acknowledgement-not-delivered">>} ELSE {}
                 b3 == IF \E i \in 1..Len(out.comp) : out.comp[i].op # owner THEN {<<"C05", "completed-by-foreign-acknowledgement">>} ELSE {}
                 b4 == IF out.wr # <<>> /\ g.discW THEN {<<"C13", "write-after-disconnect">>} ELSE {}
                 b5 == IF p.t \notin {"DISCONNECT"} /\ (IF D("InternalErrorOnDroppedOp") /\ DroppedComp(out.comp) THEN TRUE ELSE out.ret # <<>>)
                          /\ p.t \in AckTypes \cup {"PUBLISH", "PUBREL"}
                       THEN {IF DroppedComp(out.comp) THEN <<"C15", "run-ends-because-of-abandoned-operation">> ELSE <<"C13", "run-ends-on-harmless-packet">>} ELSE {}
             IN [g EXCEPT !.bad = @ \cup b1 \cup b2 \cup b3 \cup b4 \cup b5,
                          !.req = IF isAck /\ owner # 0 THEN DropAt(@, mineIdx) ELSE @,
                          !.acked = IF isAck /\ owner # 0 THEN @ \cup {<<p.t, p.id, owner, p.rc>>} ELSE @,
                          !.out = IF frees /\ owner # 0 /\ @ > 0 THEN @ - 1 ELSE @,
                          !.everSent = LET k == FirstIdx(@, LAMBDA u : u.id = p.id /\ ((p.t = "PUBACK" /\ u.t = "PUBLISH") \/ (p.t = "PUBCOMP" /\ u.t = "PUBREL")
                                                                              \/ (p.t = "PUBREC" /\ IsFail(p.rc) /\ u.t = "PUBLISH")))
                                       IN IF k = 0 THEN @ ELSE DropAt(@, k),
                          !.unacked = LET k == FirstIdx(@, LAMBDA u : u.id = p.id /\ ((p.t \in {"PUBACK", "PUBREC"} /\ u.t = "PUBLISH") \/ (p.t = "PUBCOMP" /\ u.t = "PUBREL")))
                                      IN IF k = 0 THEN @ ELSE DropAt(@, k),
                          !.ids = IF ends /\ owner # 0 THEN @ \ {p.id} ELSE @,
                          !.rx2 = IF p.t = "PUBLISH" /\ p.qos = 2 THEN @ \cup {p.id} ELSE IF p.t = "PUBREL" THEN @ \ {p.id} ELSE @,
                          !.exp = [o \in Ops |-> IF (\E r \in targets : r[2] = o) /\ sts[o].rx THEN Append(@[o], p.tag) ELSE @[o]],
                          !.causes = IF p.t = "DISCONNECT" THEN @ \cup {"srvdisc"} ELSE @]
  /\ netIn' = Tail(netIn)
  /\ Sch([a |-> "poll", t |-> "ctx", k |-> 0])
  /\ UNCHANGED <<msgQ, netEnd, ph, nextPid, nextSid, handles, bk, bq2, nIn, nCancel, nSpur, nTag, resumeQ, nResume>>

CtxSeesEnd ==
  /\ CtxCanStep /\ netIn = <<>> /\ netEnd = "eof"
  /\ cret' = <<Res("ret", "SocketClosed", 0, "")>>
  /\ Sch([a |-> "poll", t |-> "ctx", k |-> 0])
  /\ UNCHANGED <<S, msgQ, netIn, netEnd, ph, ops, sts, nextPid, nextSid, handles, bk, bq2, nIn, nCancel, nSpur, nTag, resumeQ, nResume, woken, g>>

LiveOps == {o \in Ops : ops[o].st \in {"built", "wait1", "wait2"}}

CtxSeesNoHandles ==
  /\ CtxCanStep /\ msgQ = <<>> /\ handles = 0 /\ LiveOps = {}
  /\ cret' = <<Res("ret", "HandleClosed", 0, "")>>
  /\ Sch([a |-> "poll", t |-> "ctx", k |-> 0])
  /\ UNCHANGED <<S, msgQ, netIn, netEnd, ph, ops, sts, nextPid, nextSid, handles, bk, bq2, nIn, nCancel, nSpur, nTag, resumeQ, nResume, woken, g>>

CtxReturn ==      \* run() returns what the step decided
  /\ ph = "run" /\ cret # <<>>
  /\ ph' = "ret"
  /\ woken' = woken \ {CtxT}
  /\ g' = IF g.causes = {} /\ netEnd = "open" /\ (handles > 0 \/ LiveOps # {}) THEN Bad(<<"C13", "returned-without-cause">>) ELSE g
  /\ UNCHANGED <<S, msgQ, netIn, netEnd, cret, ops, sts, nextPid, nextSid, handles, bk, bq2, nIn, nCancel, nSpur, nTag, resumeQ, nResume, sched>>

CtxYield ==       \* nothing left to do: the poll returns Pending (wakers registered on both sources)
  /\ CtxCanStep /\ msgQ = <<>> /\ netIn = <<>> /\ netEnd = "open" /\ (handles > 0 \/ LiveOps # {})
  /\ woken' = woken \ {CtxT}
  /\ UNCHANGED <<S, msgQ, netIn, netEnd, ph, cret, ops, sts, nextPid, nextSid, handles, bk, bq2, nIn, nCancel, nSpur, nTag, resumeQ, nResume, g, sched>>

CtxSpur ==        \* a poll of the actor without a wake-up: by NoLostWakeup there is nothing to do
  /\ ph = "run" /\ cret = <<>> /\ CtxT \notin woken /\ nSpur < MaxSpur
  /\ nSpur' = nSpur + 1
  /\ g' = IF msgQ # <<>> \/ netIn # <<>> THEN Bad(<<"C16", "work-without-wakeup">>) ELSE g
  /\ Sch([a |-> "poll", t |-> "ctx", k |-> 0])
  /\ UNCHANGED <<S, msgQ, netIn, netEnd, ph, cret, ops, sts, nextPid, nextSid, handles, bk, bq2, nIn, nCancel, nTag, resumeQ, nResume, woken>>

CtxDrop ==        \* the Context value is dropped (C14)
  /\ ph \in {"run", "ret"} /\ "ctxdrop" \in Endings
  /\ ph' = "gone" /\ msgQ' = <<>>
  /\ ops' = IF D("KeepSenderOnDrop") THEN ops
            ELSE [o \in Ops |-> IF ops[o].st \in {"wait1", "wait2"} /\ ops[o].slot = <<>> THEN [ops[o] EXCEPT !.slot = <<Cancelled>>] ELSE ops[o]]
  /\ sts' = [o \in Ops |-> [sts[o] EXCEPT !.tx = FALSE]]
  /\ woken' = (woken \ {CtxT}) \cup (IF D("KeepSenderOnDrop") THEN {} ELSE {Task("op", o) : o \in {p \in Ops : ops[p].st \in {"wait1", "wait2"}}})
                                \cup {Task("st", o) : o \in {p \in Ops : sts[p].pollable}}
  /\ Sch([a |-> "drop", t |-> "ctx", k |-> 0])
  /\ UNCHANGED <<S, netIn, netEnd, cret, nextPid, nextSid, handles, bk, bq2, nIn, nCancel, nSpur, nTag, resumeQ, nResume, g>>

\* ---------------------------------------------------------------------------------------------
\* session resumption (C17): the connection was lost (run() returned SocketClosed), a disconnection is recorded
\* `age` ("before" | "after" the expiry interval has elapsed) and the context is connected and run again

ResumeWritesD(St) ==
  LET ref == ResumeWrites(IF D("KeepPublishAfterPubrec") THEN [St EXCEPT !.inflight = g.everSent] ELSE St) IN
  IF D("ResendReversed") THEN [i \in 1..Len(ref) |-> ref[Len(ref) + 1 - i]]
  ELSE IF D("ResendWithoutDup") THEN [i \in 1..Len(St.inflight) |-> St.inflight[i].pk] ELSE ref

Marker(age) == [NoPk EXCEPT !.t = "DECIDE", !.tag = age]
Deciding == resumeQ # <<>> /\ Head(resumeQ).t = "DECIDE"

\* the handshake (C13 first responses are checked on the code by the `first` family; here it matters for what may
\* happen BEFORE it completes and for where the connection's limits come from)
HsChallenge ==        \* the server answers CONNECT with an AUTH challenge: connect() returns it to the user
  /\ Handshake = "auth" /\ ph = "conn" /\ nResume = 0 /\ g.chal = 0
  /\ ph' = "auth" /\ g' = [g EXCEPT !.chal = 1]
  /\ UNCHANGED <<S, msgQ, netIn, netEnd, cret, ops, sts, nextPid, nextSid, handles, bk, bq2, nIn, nCancel, nSpur, nTag, resumeQ, nResume, woken, sched>>

HsAuthorize ==        \* the user calls authorize(): AUTH written, waiting again
  /\ ph = "auth"
  /\ ph' = "conn"
  /\ UNCHANGED <<S, msgQ, netIn, netEnd, cret, ops, sts, nextPid, nextSid, handles, bk, bq2, nIn, nCancel, nSpur, nTag, resumeQ, nResume, woken, g, sched>>

HsConnack ==          \* the CONNACK (to connect() or to authorize()) announces the connection's limits; the user starts run().
                      \* Deviations: the identifier counters are reset when the CONNACK says "no session present" (seeded change
                      \* C11f); the Maximum Packet Size is taken only from a CONNACK that answers connect() itself (C12d)
  /\ ph = "conn" /\ nResume = 0 /\ (Handshake = "auth" => g.chal = 1)
  /\ S' = [S EXCEPT !.R = Rmax, !.quota = Rmax, !.M = IF D("LimitOnlyFromPlainConnack") /\ g.chal = 1 THEN 0 ELSE Msz]
  /\ nextPid' = IF D("ResetCountersOnConnack") THEN 1 ELSE nextPid
  /\ nextSid' = IF D("ResetCountersOnConnack") THEN 1 ELSE nextSid
  /\ ph' = "run" /\ woken' = woken \cup {CtxT}
  /\ Sch([a |-> "handshake", auth |-> (Handshake = "auth")])
  /\ UNCHANGED <<msgQ, netIn, netEnd, cret, ops, sts, handles, bk, bq2, nIn, nCancel, nSpur, nTag, resumeQ, nResume, g>>

Reconnect(age) ==     \* set_up + connect on a new transport; run() not yet polled.  The CONNACK of the new connection announces its
                      \* own Receive Maximum and Maximum Packet Size (absent = 65535 / no limit); the exchanges in flight keep their
                      \* slots.  Deviations: the quota is reset on every CONNACK (before 9cb500e); a CONNACK without Maximum Packet
                      \* Size leaves the previous limit in force (before 355e8e0)
  /\ "resume" \in Endings /\ ph = "ret" /\ cret # <<>> /\ cret[1].kind = "SocketClosed" /\ nResume < 1
  /\ \E r2 \in ReR, m2 \in ReM :
       LET inUse == S.R - S.quota
           debt  == r2 < inUse
       IN
       /\ S' = [S EXCEPT !.R = r2,
                         !.M = IF D("StaleMsz") /\ m2 = 0 THEN @ ELSE m2,
                         !.quota = IF D("QuotaResetOnResume") THEN r2 ELSE IF debt THEN 0 ELSE r2 - inUse,
                         !.loose = @ \/ debt]
       /\ g' = [g EXCEPT !.R = r2, !.M = m2]
       /\ Sch([a |-> "resume", age |-> age, sei |-> g.sei, R |-> r2, M |-> m2])
  /\ resumeQ' = <<Marker(age)>>
  /\ ph' = "run" /\ cret' = <<>> /\ netEnd' = "open" /\ netIn' = <<>> /\ bk' = {} /\ nResume' = nResume + 1
  /\ woken' = woken \cup {CtxT}
  /\ UNCHANGED <<msgQ, ops, sts, nextPid, nextSid, handles, bq2, nIn, nCancel, nSpur, nTag>>

CtxResumeDecide ==    \* the first thing run() does: abandon an expired session, or queue the retransmissions
  /\ CtxCanStepAny /\ Deciding
  /\ LET age == Head(resumeQ).tag
         expiredRef == SessionExpired(g.sei, 1, IF age = "after" THEN 2 ELSE 0)
         expired == IF D("InvertedExpiry") /\ g.sei = "finite" THEN ~expiredRef ELSE expiredRef
     IN
     \* an abandoned session starts with a full quota of the new connection; a resumed one keeps what Reconnect left
     /\ S' = IF expired THEN [InitS(S.R, S.M) EXCEPT !.rx2 = S.rx2] ELSE S
     /\ ops' = IF expired
               THEN [o \in Ops |-> IF \E i \in 1..Len(S.await) : S.await[i].op = o THEN [ops[o] EXCEPT !.slot = <<Cancelled>>] ELSE ops[o]]
               ELSE ops
     /\ sts' = IF expired THEN [o \in Ops |-> [sts[o] EXCEPT !.tx = FALSE]] ELSE sts
     /\ resumeQ' = IF expired THEN <<>> ELSE ResumeWritesD(S)
     /\ woken' = woken \cup (IF expired THEN {Task("op", S.await[i].op) : i \in 1..Len(S.await)} \cup {Task("st", o) : o \in {q \in Ops : sts[q].pollable}} ELSE {})
     /\ g' = [g EXCEPT !.owed = IF expiredRef THEN <<>> ELSE [i \in 1..Len(g.unacked) |-> IF g.unacked[i].t = "PUBLISH" THEN [g.unacked[i] EXCEPT !.dup = 1] ELSE g.unacked[i]],
                        !.unacked = IF expiredRef THEN <<>> ELSE @,
                        !.out = IF expiredRef THEN 0 ELSE @,
                        !.ids = IF expiredRef THEN {} ELSE @,
                        !.req = IF expiredRef THEN <<>> ELSE @,
                        !.bad = @ \cup (IF expiredRef /\ ~expired THEN {<<"C17", "resumed-an-expired-session">>}
                                       ELSE IF ~expiredRef /\ expired THEN {<<"C17", "abandoned-an-unexpired-session">>} ELSE {})]
  /\ Sch([a |-> "poll", t |-> "ctx", k |-> 0])
  /\ UNCHANGED <<msgQ, netIn, netEnd, ph, cret, nextPid, nextSid, handles, bk, bq2, nIn, nCancel, nSpur, nTag, nResume>>

CtxResend ==      \* the first thing run() does on the new connection
  /\ CtxCanStepAny /\ resumeQ # <<>> /\ ~Deciding
  /\ LET pk == Head(resumeQ)
         ackt == AckTypeFor(pk.t, pk.qos)
         owner == LET k == FirstIdx(S.await, LAMBDA e : e.key = <<ackt, pk.id>>) IN IF k = 0 THEN 0 ELSE S.await[k].op
     IN /\ bk' = bk \cup {<<ackt, pk.id, owner>>}
        /\ g' = [g EXCEPT !.bad = @ \cup (IF g.owed = <<>> \/ Head(g.owed) # pk THEN {<<"C17", "retransmission-differs">>} ELSE {}),
                           !.owed = IF @ = <<>> THEN @ ELSE Tail(@)]
  /\ resumeQ' = Tail(resumeQ)
  /\ Sch([a |-> "poll", t |-> "ctx", k |-> 0])
  /\ UNCHANGED <<S, msgQ, netIn, netEnd, ph, cret, ops, sts, nextPid, nextSid, handles, bq2, nIn, nCancel, nSpur, nTag, nResume, woken>>

\* ---------------------------------------------------------------------------------------------
\* the broker and the transport

BrokerAck(r, rc) ==
  /\ r \in bk /\ netEnd = "open" /\ ph # "gone"
  /\ rc \in (IF r[1] \in {"PUBACK", "PUBREC"} THEN Reasons ELSE IF r[1] = "PUBCOMP" THEN Reasons \cap {0, 146} ELSE {0})
  /\ netIn' = Append(netIn, [Ack(r[1], r[2]) EXCEPT !.rc = rc])
  /\ bk' = bk \ {r}
  /\ woken' = woken \cup {CtxT}
  /\ Sch([a |-> "pkt", pk |-> [t |-> r[1], id |-> [op |-> r[3]], rc |-> rc, rcs |-> <<0>>]])
  /\ UNCHANGED <<S, msgQ, netEnd, ph, cret, ops, sts, nextPid, nextSid, handles, bq2, nIn, nCancel, nSpur, nTag, resumeQ, nResume, g>>

\* inbound PUBLISH: new message, or (QoS 2) the re-delivery of an unreleased one
BrokerPublish(q, id, dup, sidsel) ==
  /\ nIn < MaxIn /\ netEnd = "open" /\ ph \in {"run", "ret"} /\ q \in InQos /\ id \in InIds
  /\ sidsel \in SUBSET {r[2] : r \in g.subs} /\ Cardinality(sidsel) <= 2
  /\ LET open == {b \in bq2 : b[1] = id}
         isRe == q = 2 /\ open # {}
         tag == IF isRe THEN (CHOOSE b \in open : TRUE)[2] ELSE "m" \o ToString(nTag + 1)
         sids == IF isRe THEN (CHOOSE b \in open : TRUE)[3]
                 ELSE LET ss == {r[1] : r \in {x \in g.subs : x[2] \in sidsel}} IN
                      [i \in 1..Cardinality(ss) |-> CHOOSE s \in ss : Cardinality({u \in ss : u < s}) = i - 1]
         pk == [NoPk EXCEPT !.t = "PUBLISH", !.qos = q, !.id = IF q = 0 THEN 0 ELSE id, !.dup = dup, !.sids = sids, !.tag = tag]
     IN /\ (dup = 1 => isRe)
        /\ (isRe => sidsel = {})
        /\ netIn' = Append(netIn, pk)
        /\ bq2' = IF q = 2 /\ ~isRe THEN bq2 \cup {<<id, tag, sids>>} ELSE bq2
        /\ nTag' = IF isRe THEN nTag ELSE nTag + 1
        /\ Sch([a |-> "pkt", pk |-> [t |-> "PUBLISH", qos |-> q, id |-> id, dup |-> dup, topic |-> tag, payload |-> tag,
                                      sids |-> [i \in 1..Len(sids) |-> [sub |-> (CHOOSE r \in g.subs : r[1] = sids[i])[2]]]]])
  /\ nIn' = nIn + 1
  /\ woken' = woken \cup {CtxT}
  /\ UNCHANGED <<S, msgQ, netEnd, ph, cret, ops, sts, nextPid, nextSid, handles, bk, nCancel, nSpur, resumeQ, nResume, g>>

BrokerPubrel(id) ==
  /\ nIn < MaxIn /\ netEnd = "open" /\ ph \in {"run", "ret"} /\ \E b \in bq2 : b[1] = id
  /\ netIn' = Append(netIn, Ack("PUBREL", id))
  /\ bq2' = {b \in bq2 : b[1] # id}
  /\ nIn' = nIn + 1
  /\ woken' = woken \cup {CtxT}
  /\ Sch([a |-> "pkt", pk |-> [t |-> "PUBREL", id |-> id, rc |-> 0]])
  /\ UNCHANGED <<S, msgQ, netEnd, ph, cret, ops, sts, nextPid, nextSid, handles, bk, nCancel, nSpur, nTag, resumeQ, nResume, g>>

ServerDisconnect(rc) ==
  /\ "srvdisc" \in Endings /\ netEnd = "open" /\ ph = "run" /\ rc \in {0, 139}
  /\ ~\E i \in 1..Len(netIn) : netIn[i].t = "DISCONNECT"
  /\ netIn' = Append(netIn, [NoPk EXCEPT !.t = "DISCONNECT", !.rc = rc])
  /\ woken' = woken \cup {CtxT}
  /\ Sch([a |-> "pkt", pk |-> [t |-> "DISCONNECT", rc |-> rc], form |-> 2])
  /\ UNCHANGED <<S, msgQ, netEnd, ph, cret, ops, sts, nextPid, nextSid, handles, bk, bq2, nIn, nCancel, nSpur, nTag, resumeQ, nResume, g>>

Eof ==
  /\ "eof" \in Endings /\ netEnd = "open" /\ ph = "run"
  /\ netEnd' = "eof"
  /\ woken' = woken \cup {CtxT}
  /\ g' = [g EXCEPT !.causes = @ \cup {"eof"}]
  /\ Sch([a |-> "eof"])
  /\ UNCHANGED <<S, msgQ, netIn, ph, cret, ops, sts, nextPid, nextSid, handles, bk, bq2, nIn, nCancel, nSpur, nTag, resumeQ, nResume>>

Next ==
  \/ \E o \in Ops, k \in Kinds : Call(o, k)
  \/ \E o \in Ops : PollOp(o) \/ SpurPollOp(o) \/ DropOp(o) \/ PollSt(o) \/ SpurPollSt(o) \/ DropSt(o)
  \/ DropHandle
  \/ HsChallenge \/ HsAuthorize \/ HsConnack
  \/ CtxResend \/ CtxResumeDecide \/ (\E age \in {"before", "after"} : Reconnect(age))
  \/ CtxTakeMsg \/ CtxTakePkt \/ CtxSeesEnd \/ CtxSeesNoHandles \/ CtxReturn \/ CtxYield \/ CtxSpur \/ CtxDrop
  \/ \E r \in bk, rc \in Reasons \cup {0} : BrokerAck(r, rc)
  \/ \E q \in InQos, id \in InIds, dup \in {0, 1}, ss \in SUBSET Ops : BrokerPublish(q, id, dup, ss)
  \/ \E id \in InIds : BrokerPubrel(id)
  \/ \E rc \in {0, 139} : ServerDisconnect(rc)
  \/ Eof

Fair ==
  /\ \A o \in Ops : WF_vars(PollOp(o)) /\ WF_vars(PollSt(o))
  /\ WF_vars(CtxTakeMsg) /\ WF_vars(CtxTakePkt) /\ WF_vars(CtxSeesEnd) /\ WF_vars(CtxSeesNoHandles) /\ WF_vars(CtxReturn) /\ WF_vars(CtxYield)

Spec == Init /\ [][Next]_vars
FairSpec == Spec /\ Fair

\* ---------------------------------------------------------------------------------------------
\* properties

\* violated clauses are recorded as <<property, clause>>
PropBad(p) == \E b \in g.bad : b[1] = p

Inv_C05 == ~PropBad("C05")
Inv_C06 == ~PropBad("C06")
Inv_C07 == ~PropBad("C07")
Inv_C08 == ~PropBad("C08")
Inv_C09 == ~PropBad("C09")
Inv_C10 == /\ ~PropBad("C10")
           /\ (nResume = 0 => g.out <= g.R)                  \* never exceeded (a resumption re-sends what is in flight whatever the new limit)
           /\ (~S.loose => S.quota + g.out = g.R)            \* never leaks, and what is in flight keeps its slot across a resumption
Inv_C11 == ~PropBad("C11")
Inv_C12 == ~PropBad("C12")
Inv_C13 == ~PropBad("C13") /\ (g.discW => (cret # <<>> \/ ph # "run"))                \* run() ends once DISCONNECT is written
Inv_C14 == /\ ~PropBad("C14")
           /\ (ph = "gone" => /\ \A o \in Ops : ops[o].st \in {"wait1", "wait2"} => ops[o].slot # <<>>   \* every waiter has been told
                              /\ \A o \in Ops : ~sts[o].tx)
Inv_C15 == ~PropBad("C15")
Inv_C16 == ~PropBad("C16")
\* C17: what is re-sent is exactly what was sent and not acknowledged, in order, DUP set, before any new traffic;
\* once the actor is idle again on the resumed connection nothing is owed any more
Inv_C17 == ~PropBad("C17") /\ ((ph = "run" /\ resumeQ = <<>> /\ nResume > 0 /\ CtxT \notin woken) => g.owed = <<>>)

\* C16, first half: whenever a task can make progress its waker has fired
NoLostWakeup ==
  /\ \A o \in Ops : (ops[o].st \in {"wait1", "wait2"} /\ ops[o].slot # <<>>) => Task("op", o) \in woken
  /\ \A o \in Ops : (sts[o].pollable /\ (sts[o].buf # <<>> \/ ~sts[o].tx)) => Task("st", o) \in woken
  /\ (ph = "run" /\ cret = <<>> /\ (msgQ # <<>> \/ netIn # <<>> \/ netEnd # "open")) => CtxT \in woken

\* C10: when nothing is in flight any more every slot is back
QuotaRestored == (~S.loose /\ g.out = 0) => S.quota = g.R

\* C14 (liveness): once the context is gone every future and stream ends
AllSettled == \A o \in Ops : ops[o].st \notin {"built", "wait1", "wait2"} /\ ~sts[o].pollable
Live_C14 == (ph = "gone") ~> AllSettled
\* C16 (liveness): under a wake-only executor a completion that has been handed over is eventually observed
Live_C16 == \A o \in Ops : (ops[o].st \in {"wait1", "wait2"} /\ ops[o].slot # <<>>) ~> (ops[o].st \notin {"wait1", "wait2"} \/ ops[o].slot = <<>>)

TypeOK ==
  /\ S.quota \in 0..MaxR /\ g.out \in 0..(2 * MaxR + 1) /\ nextPid \in 0..IdN
  /\ ph \in {"conn", "auth", "run", "ret", "gone"} /\ Len(cret) <= 1

\* state constraint: the proviso of C11 (an identifier is not allocated a second time while its first use is outstanding
\* only if fewer than IdN identifiers are allocated meanwhile) - behaviours beyond it are cut
\* (an operation holds its identifier from its first poll - possibly long before the packet is written - until it is
\* done; fewer than IdN identifiers may be handed out after its own while it holds it)
Holding(o) == ops[o].st \in {"wait1", "wait2"} \/ (ops[o].st = "dropped" /\ ops[o].req.id \in g.ids)
Proviso == /\ Cardinality(g.ids) < IdN
           /\ \A i \in 1..Len(g.allocs) : Holding(g.allocs[i]) => Len(g.allocs) - i < IdN

\* schedule export for replay into the real client (simulation mode): one JSON line per behaviour.
\* SimSpec adds a closing step once the behaviour cannot be extended (or is long enough); the
\* invariant Export prints the recorded script when it sees that step.
MaxSched == 60
Closed == sched # <<>> /\ sched[Len(sched)].a = "settle"
Finish ==
  /\ ~Closed /\ (Len(sched) >= MaxSched \/ ~ENABLED Next)
  /\ sched' = Append(sched, [a |-> "settle"])
  /\ UNCHANGED <<S, msgQ, netIn, netEnd, ph, cret, ops, sts, nextPid, nextSid, handles, bk, bq2, nIn, nCancel, nSpur, nTag, resumeQ, nResume, woken, g>>
SimSpec == Init /\ [][(~Closed /\ Len(sched) < MaxSched /\ Next) \/ Finish]_vars
Export == ~Closed \/ PrintT("SCHED " \o ToJson(sched))
=============================================================================
