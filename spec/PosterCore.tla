----------------------------- MODULE PosterCore -----------------------------
(* Reference transition functions of the poster-rs session actor and of the caller-side     *)
(* state machines.  Pure operators only: Poster.tla (design model) and PosterTrace.tla       *)
(* (trace validation of the implementation) both call exactly these, so that a property      *)
(* checked on the design and a divergence found on a trace talk about the same thing.        *)
EXTENDS Naturals, Sequences, FiniteSets

\* ------------------------------------------------------------------------------------------
\* packets:  [t, id, qos, dup, retain, rc, sids, tag, len, x]
\*   t   packet type name          id   packet identifier (0 = none)
\*   rc  reason code               sids subscription identifiers carried (sequence)
\*   tag topic (content identity)  len  encoded length      x  digest of all remaining content

AckTypes  == {"PUBACK", "PUBREC", "PUBCOMP", "SUBACK", "UNSUBACK", "PINGRESP"}
IsFail(rc) == rc >= 128

NoPk == [t |-> "NONE", id |-> 0, qos |-> 0, dup |-> 0, retain |-> 0, rc |-> 0,
         sids |-> <<>>, tag |-> "", len |-> 0, x |-> ""]
Ack(t, id) == [NoPk EXCEPT !.t = t, !.id = id]

\* results as the caller sees them: [r, kind, rc, x]
Res(r, kind, rc, x) == [r |-> r, kind |-> kind, rc |-> rc, x |-> x]
Pending   == Res("pending", "", 0, "")
OkRes     == Res("ok", "", 0, "")
ErrRes(k) == Res("err", k, 0, "")

\* what a completion puts into an operation's slot: an acknowledgement packet or a result
SlotAck(p) == [k |-> "ack", pk |-> p, res |-> Pending]
SlotRes(r) == [k |-> "res", pk |-> NoPk, res |-> r]
Cancelled  == [k |-> "gone", pk |-> NoPk, res |-> Pending]

AckTypeFor(t, qos) ==
  CASE t = "PUBLISH" /\ qos = 1 -> "PUBACK"
    [] t = "PUBLISH" /\ qos = 2 -> "PUBREC"
    [] t = "PUBREL"      -> "PUBCOMP"
    [] t = "SUBSCRIBE"   -> "SUBACK"
    [] t = "UNSUBSCRIBE" -> "UNSUBACK"
    [] t = "PINGREQ"     -> "PINGRESP"
    [] OTHER             -> "NONE"

\* ------------------------------------------------------------------------------------------
\* sequences

DropAt(s, k) == [i \in 1..(Len(s) - 1) |-> IF i < k THEN s[i] ELSE s[i + 1]]

FirstIdx(s, P(_)) ==
  IF \E i \in 1..Len(s) : P(s[i])
  THEN CHOOSE i \in 1..Len(s) : P(s[i]) /\ \A j \in 1..(i - 1) : ~P(s[j])
  ELSE 0

AwaitIdx(aw, key)       == FirstIdx(aw, LAMBDA e : e.key = key)
InflightIdx(inf, t, id) == FirstIdx(inf, LAMBDA e : e.t = t /\ e.id = id)

\* ------------------------------------------------------------------------------------------
\* actor state  S = [R, quota, M, await, subs, inflight, rx2, loose]
\*   R, quota  receive maximum of the server and slots still free
\*   M         maximum packet size of the server, 0 = none announced
\*   await     FIFO of [key |-> <<acktype, id>>, op]
\*   subs      FIFO of [sid, st]   (st = the subscribe call that owns the stream)
\*   inflight  FIFO of [t, id, pk] in order of first transmission (PUBLISH QoS>0, PUBREL)
\*   rx2       inbound QoS 2 identifiers answered PUBREC and not yet released
\*   loose     flow-control bookkeeping no longer determined by the property statements
\*             (non-conformant acknowledgement seen, session resumed): quota clauses suspended

InitS(R, M) == [R |-> R, quota |-> R, M |-> M, await |-> <<>>, subs |-> <<>>,
                inflight |-> <<>>, rx2 |-> {}, loose |-> FALSE]

\* result of one actor step
Out(S, wr, comp, deliv, ret, supp) ==
  [S |-> S, wr |-> wr, comp |-> comp, deliv |-> deliv, ret |-> ret, supp |-> supp]

SizeRejected(S, len) == S.M # 0 /\ len > S.M

\* messages  [kind \in {"FF","AA","SUB"}, op, pk, sid]
(* HandleMsg: what handling one queued message must do (C12 first, then C10, then the write). *)
HandleMsg(S, m) ==
  IF SizeRejected(S, m.pk.len)                                    \* C12: before any bookkeeping or write
  THEN Out(S, <<>>, <<[op |-> m.op, slot |-> SlotRes(ErrRes("MaximumPacketSizeExceeded"))]>>, <<>>, <<>>, <<>>)
  ELSE CASE m.kind = "FF" ->                                      \* QoS 0 PUBLISH, DISCONNECT
         Out(S, <<m.pk>>, <<[op |-> m.op, slot |-> SlotRes(OkRes)]>>, <<>>,
             IF m.pk.t = "DISCONNECT" THEN <<Res("ret", "Ok", 0, "")>> ELSE <<>>, <<>>)     \* C13
    [] m.kind = "AA" /\ m.pk.t = "PUBLISH" ->
         IF S.quota = 0                                                                   \* C10
         THEN Out(S, <<>>, <<[op |-> m.op, slot |-> SlotRes(ErrRes("QuotaExceeded"))]>>, <<>>, <<>>, <<>>)
         ELSE Out([S EXCEPT !.quota = @ - 1,
                            !.await = Append(@, [key |-> <<AckTypeFor("PUBLISH", m.pk.qos), m.pk.id>>, op |-> m.op]),
                            !.inflight = Append(@, [t |-> "PUBLISH", id |-> m.pk.id, pk |-> m.pk])],
                  <<m.pk>>, <<>>, <<>>, <<>>, <<>>)
    [] m.kind = "AA" /\ m.pk.t = "PUBREL" ->
         Out([S EXCEPT !.await = Append(@, [key |-> <<"PUBCOMP", m.pk.id>>, op |-> m.op]),
                       !.inflight = Append(@, [t |-> "PUBREL", id |-> m.pk.id, pk |-> m.pk])],
             <<m.pk>>, <<>>, <<>>, <<>>, <<>>)
    [] m.kind = "SUB" ->
         Out([S EXCEPT !.await = Append(@, [key |-> <<"SUBACK", m.pk.id>>, op |-> m.op]),
                       !.subs  = Append(@, [sid |-> m.sid, st |-> m.op])],                \* C07: from now on
             <<m.pk>>, <<>>, <<>>, <<>>, <<>>)
    [] OTHER ->
         Out([S EXCEPT !.await = Append(@, [key |-> <<AckTypeFor(m.pk.t, m.pk.qos),
                                                       IF m.pk.t = "PINGREQ" THEN 0 ELSE m.pk.id>>, op |-> m.op])],
             <<m.pk>>, <<>>, <<>>, <<>>, <<>>)

FreeSlot(S) == [S EXCEPT !.quota = IF @ < S.R THEN @ + 1 ELSE @]

\* first awaiting entry keyed (type, id); absent => absorbed (C15)
Complete(S, p) ==
  LET k == AwaitIdx(S.await, <<p.t, IF p.t = "PINGRESP" THEN 0 ELSE p.id>>) IN
  IF k = 0 THEN [S |-> S, comp |-> <<>>]
  ELSE [S |-> [S EXCEPT !.await = DropAt(@, k)], comp |-> <<[op |-> S.await[k].op, slot |-> SlotAck(p)]>>]

Targets(S, p) == SelectSeq(S.subs, LAMBDA e : \E i \in 1..Len(p.sids) : p.sids[i] = e.sid)

(* HandlePkt: what handling one well-formed inbound packet must do.                          *)
HandlePkt(S, p) ==
  CASE p.t = "PUBLISH" ->
         LET redeliv == p.qos = 2 /\ p.id \in S.rx2                                      \* C09
             tgs == Targets(S, p)
             tg == IF redeliv THEN <<>> ELSE [i \in 1..Len(tgs) |-> [st |-> tgs[i].st, pk |-> p]]   \* C07
             S1 == IF p.qos = 2 THEN [S EXCEPT !.rx2 = @ \cup {p.id}] ELSE S
             wr == IF p.qos = 1 THEN <<Ack("PUBACK", p.id)>>                             \* C08: unconditional
                   ELSE IF p.qos = 2 THEN <<Ack("PUBREC", p.id)>> ELSE <<>>
         IN Out(S1, wr, <<>>, tg, <<>>, IF redeliv THEN <<p.x>> ELSE <<>>)
    [] p.t = "PUBREL" -> Out([S EXCEPT !.rx2 = @ \ {p.id}], <<Ack("PUBCOMP", p.id)>>, <<>>, <<>>, <<>>, <<>>)
    [] p.t \in {"PUBACK", "PUBCOMP"} ->
         LET it == IF p.t = "PUBACK" THEN "PUBLISH" ELSE "PUBREL"
             k  == InflightIdx(S.inflight, it, p.id)
             S1 == IF k # 0 THEN FreeSlot([S EXCEPT !.inflight = DropAt(@, k)])           \* C10, C17
                   ELSE [S EXCEPT !.loose = TRUE]                                        \* not conformant
             c  == Complete(S1, p)
         IN Out(c.S, <<>>, c.comp, <<>>, <<>>, <<>>)
    [] p.t = "PUBREC" ->
         LET k  == InflightIdx(S.inflight, "PUBLISH", p.id)
             S0 == IF k # 0 THEN [S EXCEPT !.inflight = DropAt(@, k)]                    \* C17: acknowledged
                   ELSE [S EXCEPT !.loose = TRUE]
             S1 == IF k # 0 /\ IsFail(p.rc) THEN FreeSlot(S0) ELSE S0                    \* C10
             c  == Complete(S1, p)
         IN Out(c.S, <<>>, c.comp, <<>>, <<>>, <<>>)
    [] p.t \in {"SUBACK", "UNSUBACK", "PINGRESP"} ->
         LET c == Complete(S, p) IN Out(c.S, <<>>, c.comp, <<>>, <<>>, <<>>)
    [] p.t = "DISCONNECT" ->
         Out(S, <<>>, <<>>, <<>>,
             <<IF p.rc = 0 THEN Res("ret", "Ok", 0, "") ELSE Res("ret", "Disconnected", p.rc, p.x)>>, <<>>)   \* C13
    [] OTHER -> Out(S, <<>>, <<>>, <<>>, <<Res("ret", "AnyError", 0, "")>>, <<>>)

\* resuming a session (C17)
ResumeWrites(S) ==
  [i \in 1..Len(S.inflight) |->
     IF S.inflight[i].t = "PUBLISH" THEN [S.inflight[i].pk EXCEPT !.dup = 1] ELSE S.inflight[i].pk]

SessionExpired(seik, sei, secs) ==      \* seik \in {"zero", "finite", "never"}
  IF seik = "zero" THEN TRUE ELSE IF seik = "never" THEN FALSE ELSE secs >= sei
   \* "never" = 0xFFFFFFFF.  `secs` is the whole number of seconds between the recorded disconnection and the reconnection;
   \* some time has always passed on top of it, so with secs = sei the interval has elapsed (the harness never probes
   \* secs = sei - 1, where the clock may or may not tick over during the run)

\* ------------------------------------------------------------------------------------------
\* caller side: one poll of an operation future
\*   o = [kind, qos, st \in {"built","wait1","wait2"}, slot (sequence of length 0 or 1), req (packet to send), sid]
\* returns [o, enq (messages to enqueue), res]

MsgKindFor(o) ==
  IF o.kind = "sub" THEN "SUB"
  ELSE IF o.kind = "disc" \/ (o.kind = "pub" /\ o.qos = 0) THEN "FF" ELSE "AA"

PubErrKind(t) == CASE t = "PUBACK" -> "PubackError" [] t = "PUBREC" -> "PubrecError"
                   [] t = "PUBCOMP" -> "PubcompError" [] OTHER -> "?"

\* result of an operation whose final acknowledgement is p                                  (C06)
AckResult(o, p) ==
  IF o.kind = "pub" THEN (IF IsFail(p.rc) THEN Res("err", PubErrKind(p.t), p.rc, p.x) ELSE OkRes)
  ELSE IF o.kind \in {"sub", "unsub"} THEN Res("ok", "", 0, p.x)
  ELSE OkRes

OpStep(id, o, ctxAlive) ==
  LET done(r) == [o |-> o, enq |-> <<>>, res |-> r, fin |-> TRUE]
      wait(o2, q) == [o |-> o2, enq |-> q, res |-> Pending, fin |-> FALSE]
  IN
  CASE o.st = "built" ->
         IF ~ctxAlive THEN done(ErrRes("ContextExited"))                                  \* C14
         ELSE wait([o EXCEPT !.st = "wait1"],
                   <<[kind |-> MsgKindFor(o), op |-> id, pk |-> o.req, sid |-> o.sid]>>)
    [] o.slot = <<>> -> wait(o, <<>>)                                                     \* C05: pending until ack
    [] o.slot[1].k = "gone" -> done(ErrRes("ContextExited"))                              \* C14
    [] o.slot[1].k = "res"  -> done(o.slot[1].res)
    [] o.st = "wait1" /\ o.kind = "pub" /\ o.qos = 2 /\ ~IsFail(o.slot[1].pk.rc) ->       \* C06: second phase
         IF ~ctxAlive THEN done(ErrRes("ContextExited"))
         ELSE wait([o EXCEPT !.st = "wait2", !.slot = <<>>],
                   <<[kind |-> "AA", op |-> id, sid |-> 0,
                      pk |-> [Ack("PUBREL", o.slot[1].pk.id) EXCEPT !.len = 4]]>>)
    [] OTHER -> done(AckResult(o, o.slot[1].pk))
=============================================================================
