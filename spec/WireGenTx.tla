----------------------------- MODULE WireGenTx -----------------------------
(* Enumerates the option space of every client request (C01) and writes, per case, the option    *)
(* record together with what MqttWire says the written packet must be.  Evaluated by TLC as       *)
(* ASSUMEs (no behaviour): `tlc -config WireGenTx.cfg WireGenTx.tla` with IOEnv.OUTDIR and TIER.  *)
EXTENDS MqttWire, Json, IOUtils, Sequences, SequencesExt, Randomization

Thorough == IOEnv.TIER = "thorough"
Out(name) == IOEnv.OUTDIR \o "/" \o name

\* four-byte integers: the extremes, and values that a detour through a narrower or a floating-point type would not survive
\* (65536 + 1, 2^24 + 1, 100 000 001, 2^31 - 1, 0xdeadbeef, 2^32 - 2)
U32s == {<<0, 0, 0, 0>>, <<0, 0, 0, 1>>, <<255, 255, 255, 255>>, <<0, 1, 0, 1>>, <<1, 0, 0, 1>>, <<5, 245, 225, 1>>, <<127, 255, 255, 255>>,
         <<222, 173, 190, 239>>, <<255, 255, 255, 254>>}
U32few == {<<0, 0, 1, 44>>}
SLens == {0, 1, 127, 128, 16383, 16384, 65535}                \* boundary lengths of strings and binaries

\* windows of lengths wide enough that, whatever the fixed part of the packet, the Remaining Length / Property Length passes
\* through each step of the variable byte integer (127|128, 16383|16384, and for payloads 2097151|2097152) value by value
Win == (96..130) \cup (16340..16390)
WinBig == (2097120..2097156)

UpsChoices == {<<>>, <<<<F("k", 1), F("v", 1)>>>>, <<<<F("key", 3), F("value~", 9)>>, <<F("key", 3), F("other", 5)>>>>}

\* ------------------------------------------------------------------------------------------ PUBLISH
PubBase == [qos |-> <<1>>, retain |-> <<>>, topic |-> <<F("t", 3)>>, payload |-> <<F("p", 5)>>, pfi |-> <<>>, mei |-> <<>>,
            alias |-> <<>>, corr |-> <<>>, resp |-> <<>>, ctype |-> <<>>, ups |-> <<>>]

PubSubsets ==      \* every subset of the optional fields, every QoS/retain value
  { [qos |-> q, retain |-> r, topic |-> t, payload |-> p, pfi |-> pf, mei |-> me, alias |-> al, corr |-> co, resp |-> re, ctype |-> ct, ups |-> up] :
      q \in Opt({0, 1, 2}), r \in Opt(BOOLEAN), t \in {<<>>, <<F("t", 3)>>}, p \in {<<>>, <<F("p", 0)>>, <<F("p", 5)>>},
      pf \in (IF Thorough THEN Opt(BOOLEAN) ELSE {<<>>, <<TRUE>>}), me \in {<<>>, <<<<0, 0, 1, 44>>>>}, al \in {<<>>, <<7>>},
      co \in {<<>>, <<F("c", 4)>>}, re \in {<<>>, <<F("r", 6)>>}, ct \in {<<>>, <<F("ct~", 8)>>}, up \in UpsChoices }

PubBoundaries ==   \* boundary lengths and integer extremes, one field at a time, and pairs around the remaining-length steps
  { [PubBase EXCEPT !.topic = <<F("t~", n)>>] : n \in SLens \ {0} }
  \cup { [PubBase EXCEPT !.payload = <<F("p", n)>>] : n \in SLens \cup {108, 109, 110, 111, 16363, 16364, 16365, 16366, 100000} }
  \cup { [PubBase EXCEPT !.corr = <<F("c", n)>>] : n \in SLens }
  \cup { [PubBase EXCEPT !.resp = <<F("r~", n)>>] : n \in SLens }
  \cup { [PubBase EXCEPT !.ctype = <<F("ct", n)>>] : n \in SLens }
  \cup { [PubBase EXCEPT !.ups = <<<<F("k~", n), F("v", m)>>>>] : n \in {0, 1, 128, 65535}, m \in {0, 127, 65535} }
  \cup { [PubBase EXCEPT !.qos = <<q>>, !.payload = <<F("p", n)>>] : q \in {0, 1}, n \in Win \cup WinBig }      \* remaining length steps
  \cup { [PubBase EXCEPT !.corr = <<F("c", n)>>] : n \in Win }                                               \* property length steps
  \cup { [PubBase EXCEPT !.ups = <<<<F("k", 2), F("v", n)>>>>] : n \in Win }
  \cup { [PubBase EXCEPT !.mei = <<x>>] : x \in U32s }
  \cup { [PubBase EXCEPT !.alias = <<x>>] : x \in {1, 255, 256, 65535} }
  \cup { [PubBase EXCEPT !.qos = <<q>>, !.payload = <<F("p", n)>>, !.corr = <<F("c", m)>>] : q \in {0, 2}, n \in {100, 16300}, m \in {0, 10, 60} }

PubCases == PubSubsets \cup PubBoundaries
ASSUME PrintT(<<"publish cases", Cardinality(PubCases)>>)
ASSUME ndJsonSerialize(Out("tx_pub.ndjson"), SetToSeq({[kind |-> "pub", o |-> o, e |-> PublishExpect(o)] : o \in PubCases}))

\* ---------------------------------------------------------------------------------------- SUBSCRIBE
Flt(n, q, nl, rap, rh) == [f |-> F("f", n), qos |-> q, nl |-> nl, rap |-> rap, rh |-> rh]
FltAll == {Flt(3, q, nl, rap, rh) : q \in {0, 1, 2}, nl \in BOOLEAN, rap \in BOOLEAN, rh \in {0, 1, 2}}
SubCases ==
  { [filters |-> <<f>>, ups |-> up] : f \in FltAll, up \in UpsChoices }
  \cup { [filters |-> <<f, g>>, ups |-> <<>>] : f \in FltAll, g \in {Flt(5, 2, TRUE, FALSE, 1), Flt(1, 0, FALSE, TRUE, 2)} }
  \cup { [filters |-> <<Flt(3, 1, FALSE, FALSE, 0), Flt(4, 2, TRUE, TRUE, 2), Flt(5, 0, FALSE, TRUE, 1)>>, ups |-> up] : up \in UpsChoices }
  \* the same topic filter listed twice (legal; the entries are the caller's, each gets its reason code): written as supplied
  \cup { [filters |-> <<f, Flt(3, 0, TRUE, TRUE, 1)>>, ups |-> <<>>] : f \in FltAll }
  \cup { [filters |-> <<Flt(3, 2, FALSE, FALSE, 0), Flt(4, 1, FALSE, FALSE, 0), Flt(3, 2, FALSE, FALSE, 0)>>, ups |-> <<>>] }
  \cup { [filters |-> <<Flt(n, 1, FALSE, FALSE, 0)>>, ups |-> <<>>] : n \in (SLens \ {0}) \cup Win }
  \cup { [filters |-> <<Flt(3, 1, FALSE, FALSE, 0)>>, ups |-> <<<<F("k", 2), F("v", n)>>>>] : n \in Win }
  \cup { [filters |-> <<>>, ups |-> up] : up \in UpsChoices }
ASSUME PrintT(<<"subscribe cases", Cardinality(SubCases)>>)
ASSUME ndJsonSerialize(Out("tx_sub.ndjson"), SetToSeq({[kind |-> "sub", o |-> o, e |-> SubscribeExpect(o)] : o \in SubCases}))

UnsubCases ==
  { [filters |-> fs, ups |-> up] :
      fs \in {<<>>, <<[f |-> F("f", 3)]>>, <<[f |-> F("f", 3)], [f |-> F("g~", 7)]>>, <<[f |-> F("f", 1)], [f |-> F("g", 2)], [f |-> F("h", 3)]>>,
              <<[f |-> F("f", 3)], [f |-> F("f", 3)]>>, <<[f |-> F("f", 3)], [f |-> F("g", 2)], [f |-> F("f", 3)]>>},
      up \in UpsChoices }
  \cup { [filters |-> <<[f |-> F("f", n)]>>, ups |-> <<>>] : n \in (SLens \ {0}) \cup Win }
  \cup { [filters |-> <<[f |-> F("f", 3)]>>, ups |-> <<<<F("k", 2), F("v", n)>>>>] : n \in Win }
ASSUME ndJsonSerialize(Out("tx_unsub.ndjson"), SetToSeq({[kind |-> "unsub", o |-> o, e |-> UnsubscribeExpect(o)] : o \in UnsubCases}))

\* --------------------------------------------------------------------------------------- DISCONNECT
DiscReasons == {0, 4, 128, 129, 130, 131, 147, 148, 149, 150, 151, 152, 153}
DiscCases ==
  { [reason |-> r, sei |-> s, rs |-> x, ups |-> up] : r \in Opt(DiscReasons), s \in Opt({<<0, 0, 0, 30>>}), x \in Opt({F("bye", 3)}), up \in UpsChoices }
  \cup { [reason |-> <<0>>, sei |-> <<s>>, rs |-> <<>>, ups |-> <<>>] : s \in U32s }
  \cup { [reason |-> <<0>>, sei |-> <<>>, rs |-> <<F("r~", n)>>, ups |-> <<>>] : n \in SLens \cup Win }
ASSUME ndJsonSerialize(Out("tx_disc.ndjson"), SetToSeq({[kind |-> "disc", o |-> o, e |-> DisconnectExpect(o)] : o \in DiscCases}))

\* --------------------------------------------------------------------------------------------- AUTH
AuthCases ==
  { [reason |-> r, method |-> m, data |-> d, ups |-> up] : r \in Opt({0, 24, 25}), m \in Opt({F("m", 5)}), d \in Opt({F("d", 0), F("d", 9)}), up \in UpsChoices }
  \cup { [reason |-> <<24>>, method |-> <<F("m~", n)>>, data |-> <<F("d", m)>>, ups |-> <<>>] : n \in SLens, m \in {0, 128, 65535} }
  \cup { [reason |-> <<24>>, method |-> <<F("m", 4)>>, data |-> <<F("d", n)>>, ups |-> <<>>] : n \in Win }
ASSUME ndJsonSerialize(Out("tx_auth.ndjson"), SetToSeq({[kind |-> "auth", o |-> o, e |-> AuthExpect(o)] : o \in AuthCases}))

\* ------------------------------------------------------------------------------------------ CONNECT
WillOff == [on |-> FALSE, qos |-> <<>>, retain |-> <<>>, delay |-> <<>>, pfi |-> <<>>, mei |-> <<>>, ctype |-> <<>>, resp |-> <<>>,
            corr |-> <<>>, ups |-> <<>>, topic |-> NoF, payload |-> NoF]
WillOn == [WillOff EXCEPT !.on = TRUE, !.topic = F("wt", 4), !.payload = F("wp", 6)]
ConnBase == [cid |-> <<>>, keepalive |-> <<>>, clean |-> <<>>, sei |-> <<>>, recvmax |-> <<>>, maxpkt |-> <<>>, aliasmax |-> <<>>,
             reqresp |-> <<>>, reqprob |-> <<>>, method |-> <<>>, data |-> <<>>, ups |-> <<>>, will |-> WillOff, user |-> <<>>, pass |-> <<>>]

\* single optional fields, by name, each with a typical value
Single(name) ==
  CASE name = "cid" -> [ConnBase EXCEPT !.cid = <<F("id", 6)>>]
    [] name = "keepalive" -> [ConnBase EXCEPT !.keepalive = <<60>>]
    [] name = "clean" -> [ConnBase EXCEPT !.clean = <<TRUE>>]
    [] name = "sei" -> [ConnBase EXCEPT !.sei = <<<<0, 0, 14, 16>>>>]
    [] name = "recvmax" -> [ConnBase EXCEPT !.recvmax = <<20>>]
    [] name = "maxpkt" -> [ConnBase EXCEPT !.maxpkt = <<<<0, 1, 0, 0>>>>]
    [] name = "aliasmax" -> [ConnBase EXCEPT !.aliasmax = <<10>>]
    [] name = "reqresp" -> [ConnBase EXCEPT !.reqresp = <<TRUE>>]
    [] name = "reqprob" -> [ConnBase EXCEPT !.reqprob = <<FALSE>>]
    [] name = "method" -> [ConnBase EXCEPT !.method = <<F("m", 5)>>]
    [] name = "auth" -> [ConnBase EXCEPT !.method = <<F("m", 5)>>, !.data = <<F("d", 7)>>]
    [] name = "dataonly" -> [ConnBase EXCEPT !.data = <<F("d", 7)>>]
    [] name = "ups" -> [ConnBase EXCEPT !.ups = <<<<F("k", 1), F("v", 2)>>, <<F("k", 1), F("w", 3)>>>>]
    [] name = "will" -> [ConnBase EXCEPT !.will = WillOn]
    [] name = "user" -> [ConnBase EXCEPT !.user = <<F("u~", 5)>>]
    [] name = "pass" -> [ConnBase EXCEPT !.pass = <<F("pw", 8)>>]
    [] OTHER -> ConnBase
Names == {"cid", "keepalive", "clean", "sei", "recvmax", "maxpkt", "aliasmax", "reqresp", "reqprob", "method", "auth", "dataonly", "ups", "will", "user", "pass"}

\* merging two option records: a field set in either is set
Pick(a, b, base) == IF a # base THEN a ELSE b
Merge(x, y) ==
  [cid |-> Pick(x.cid, y.cid, <<>>), keepalive |-> Pick(x.keepalive, y.keepalive, <<>>), clean |-> Pick(x.clean, y.clean, <<>>),
   sei |-> Pick(x.sei, y.sei, <<>>), recvmax |-> Pick(x.recvmax, y.recvmax, <<>>), maxpkt |-> Pick(x.maxpkt, y.maxpkt, <<>>),
   aliasmax |-> Pick(x.aliasmax, y.aliasmax, <<>>), reqresp |-> Pick(x.reqresp, y.reqresp, <<>>), reqprob |-> Pick(x.reqprob, y.reqprob, <<>>),
   method |-> Pick(x.method, y.method, <<>>), data |-> Pick(x.data, y.data, <<>>), ups |-> Pick(x.ups, y.ups, <<>>),
   will |-> Pick(x.will, y.will, WillOff), user |-> Pick(x.user, y.user, <<>>), pass |-> Pick(x.pass, y.pass, <<>>)]

WillVariants ==
  { [WillOn EXCEPT !.qos = q, !.retain = r] : q \in Opt({0, 1, 2}), r \in Opt(BOOLEAN) }
  \cup { [WillOn EXCEPT !.delay = <<x>>] : x \in U32s } \cup { [WillOn EXCEPT !.mei = <<x>>] : x \in U32s }
  \cup { [WillOn EXCEPT !.pfi = <<b>>] : b \in BOOLEAN }
  \cup { [WillOn EXCEPT !.ctype = <<F("c~", n)>>] : n \in {0, 5, 128} } \cup { [WillOn EXCEPT !.resp = <<F("r", n)>>] : n \in {0, 5, 128} }
  \cup { [WillOn EXCEPT !.corr = <<F("x", n)>>] : n \in {0, 5, 128} }
  \cup { [WillOn EXCEPT !.ups = u] : u \in UpsChoices }
  \cup { [WillOn EXCEPT !.topic = F("wt", n), !.payload = F("wp", m)] : n \in {1, 127, 128, 65535}, m \in {0, 128, 65535} }
  \cup { [WillOn EXCEPT !.qos = <<2>>, !.retain = <<TRUE>>, !.delay = <<<<0, 0, 0, 5>>>>, !.pfi = <<TRUE>>, !.mei = <<<<0, 0, 0, 9>>>>, !.ctype = <<F("c", 3)>>,
                        !.resp = <<F("r", 4)>>, !.corr = <<F("x", 5)>>, !.ups = <<<<F("k", 1), F("v", 1)>>>>] }

ConnFlagsAll ==    \* every combination of the flag-relevant options
  { [ConnBase EXCEPT !.clean = c, !.user = u, !.pass = p, !.will = w] :
      c \in Opt(BOOLEAN), u \in Opt({F("u", 3)}), p \in Opt({F("pw", 4)}),
      w \in {WillOff} \cup {[WillOn EXCEPT !.qos = q, !.retain = r] : q \in Opt({0, 1, 2}), r \in Opt(BOOLEAN)} }

ConnBoundaries ==
  { [ConnBase EXCEPT !.cid = <<F("id~", n)>>] : n \in SLens \cup Win } \cup { [ConnBase EXCEPT !.user = <<F("u", n)>>] : n \in SLens }
  \cup { [ConnBase EXCEPT !.pass = <<F("p", n)>>] : n \in SLens }
  \cup { [ConnBase EXCEPT !.method = <<F("m", n)>>, !.data = <<F("d", m)>>] : n \in {0, 1, 128, 65535}, m \in {0, 127, 65535} }
  \cup { [ConnBase EXCEPT !.method = <<F("m", 4)>>, !.data = <<F("d", n)>>] : n \in Win }                    \* CONNECT property length steps
  \cup { [ConnBase EXCEPT !.will = [WillOn EXCEPT !.corr = <<F("x", n)>>]] : n \in Win }                    \* will property length steps
  \cup { [ConnBase EXCEPT !.will = [WillOn EXCEPT !.payload = F("wp", n)]] : n \in Win }
  \cup { [ConnBase EXCEPT !.keepalive = <<k>>] : k \in {0, 1, 65535} } \cup { [ConnBase EXCEPT !.recvmax = <<k>>] : k \in {1, 256, 65535} }
  \cup { [ConnBase EXCEPT !.aliasmax = <<k>>] : k \in {0, 1, 65535} }
  \cup { [ConnBase EXCEPT !.sei = <<x>>] : x \in U32s } \cup { [ConnBase EXCEPT !.maxpkt = <<x>>] : x \in U32s \ {<<0, 0, 0, 0>>} }
  \cup { [ConnBase EXCEPT !.reqresp = <<b>>, !.reqprob = <<c>>] : b \in BOOLEAN, c \in BOOLEAN }
  \cup { [ConnBase EXCEPT !.ups = u] : u \in UpsChoices }

ConnRandom ==      \* seeded random subsets of the 16 option groups
  { LET pick == RandomSubset(IF i % 3 = 0 THEN 8 ELSE 4 + (i % 5), Names) IN
      LET RECURSIVE fold(_, _)
          fold(S, acc) == IF S = {} THEN acc ELSE LET n == CHOOSE x \in S : TRUE IN fold(S \ {n}, Merge(Single(n), acc))
      IN fold(pick, ConnBase) : i \in 1..(IF Thorough THEN 4000 ELSE 300) }

ConnCases ==
  { Single(n) : n \in Names } \cup { Merge(Single(a), Single(b)) : a \in Names, b \in Names }
  \cup { [ConnBase EXCEPT !.will = w] : w \in WillVariants } \cup ConnFlagsAll \cup ConnBoundaries \cup ConnRandom \cup {ConnBase}
ASSUME PrintT(<<"connect cases", Cardinality(ConnCases)>>)
ASSUME ndJsonSerialize(Out("tx_connect.ndjson"), SetToSeq({[kind |-> "connect", o |-> o, e |-> ConnectExpect(o)] : o \in ConnCases}))

ASSUME ndJsonSerialize(Out("tx_ping.ndjson"), <<[kind |-> "ping", o |-> [x |-> 0], e |-> PingExpect]>>)
=============================================================================
