------------------------------ MODULE Framing ------------------------------
(* Design model of inbound framing (C03): a byte stream made of packets of given lengths is     *)
(* made readable in arbitrary chunks; the framer task is polled only when its waker has fired   *)
(* and reads until the transport reports "nothing more now" (Pending), which is what registers *)
(* the waker.  Checked for every composition of the stream into chunks and every interleaving   *)
(* of arrivals and polls:                                                                        *)
(*   ChunkIndependent  at every quiescent point everything that has arrived has been read and   *)
(*                     exactly the packets wholly inside it have been emitted, in order          *)
(*   NoLostWakeup      the task is never parked without a registered waker while unread bytes   *)
(*                     (or the end of the stream) are waiting                                    *)
(*   NoEarlyEnd        end-of-stream is reported only after the transport ended                  *)
(* CONSTANT Dev switches the reference to the two behaviours poster-rs had before the fix:       *)
(* commits (negative controls): "PendingAfterShortRead" (6d0d4e9) parks without a waker when a   *)
(* read leaves fewer than 2 bytes of the next packet; "EofOnZeroRead" takes the following        *)
(* zero-length read for the end of the stream.                                                   *)
(* The conformance side is PosterTrace.tla over the chunking families (`inject` lines list the   *)
(* packets each chunk completes; `ctxe`/`quiescent` lines demand unread = 0 and all completed     *)
(* packets handled).                                                                             *)
EXTENDS Naturals, Sequences, FiniteSets

CONSTANTS
  Pkts,       \* sequence of packet lengths, each >= 2
  Dev         \* deviations switched on

\* stream shapes for the configurations (a cfg file cannot hold a tuple)
PktsQuick == <<2, 4, 3, 2>>
PktsFull  == <<2, 4, 3, 2, 5>>

RECURSIVE Sum(_)
Sum(s) == IF s = <<>> THEN 0 ELSE Head(s) + Sum(Tail(s))
Total == Sum(Pkts)
\* number of packets wholly inside the first n bytes
RECURSIVE Whole(_, _)
Whole(s, n) == IF s = <<>> \/ Head(s) > n THEN 0 ELSE 1 + Whole(Tail(s), n - Head(s))
\* bytes of the first k packets
RECURSIVE Upto(_, _)
Upto(s, k) == IF k = 0 \/ s = <<>> THEN 0 ELSE Head(s) + Upto(Tail(s), k - 1)

VARIABLES
  chunks,     \* chunks made readable and not yet read (sequence of sizes)
  arrived,    \* bytes made readable so far
  eof,        \* the transport has ended (after everything arrived)
  read,       \* bytes the framer has read
  emitted,    \* packets handed to the actor
  rdWaker,    \* the reader holds the task's waker
  woken,      \* the task's waker has fired since its last poll
  inPoll,     \* the task is being polled
  ended       \* the framer has reported end-of-stream
vars == <<chunks, arrived, eof, read, emitted, rdWaker, woken, inPoll, ended>>

Init == chunks = <<>> /\ arrived = 0 /\ eof = FALSE /\ read = 0 /\ emitted = 0
        /\ rdWaker = FALSE /\ woken = TRUE /\ inPoll = FALSE /\ ended = FALSE

Arrive(n) ==
  /\ ~eof /\ arrived + n <= Total
  /\ chunks' = Append(chunks, n) /\ arrived' = arrived + n
  /\ woken' = (woken \/ rdWaker) /\ rdWaker' = FALSE
  /\ UNCHANGED <<eof, read, emitted, inPoll, ended>>

End ==
  /\ ~eof /\ arrived = Total
  /\ eof' = TRUE /\ woken' = (woken \/ rdWaker) /\ rdWaker' = FALSE
  /\ UNCHANGED <<chunks, arrived, read, emitted, inPoll, ended>>

PollBegin ==
  /\ woken /\ ~inPoll /\ ~ended
  /\ inPoll' = TRUE /\ woken' = FALSE
  /\ UNCHANGED <<chunks, arrived, eof, read, emitted, rdWaker, ended>>

\* one read that returns data; every packet now complete is emitted (in order)
ReadData ==
  /\ inPoll /\ chunks # <<>>
  /\ LET r == read + Head(chunks)
         leftover == r - Upto(Pkts, Whole(Pkts, r))
     IN /\ read' = r /\ emitted' = Whole(Pkts, r) /\ chunks' = Tail(chunks)
        /\ IF "PendingAfterShortRead" \in Dev /\ leftover = 1
           THEN inPoll' = FALSE          \* returns Pending although the reader returned data: no waker registered
           ELSE inPoll' = TRUE           \* reads again
  /\ UNCHANGED <<arrived, eof, rdWaker, woken, ended>>

\* a read that finds nothing: the transport keeps the waker and the poll returns Pending
ReadPending ==
  /\ inPoll /\ chunks = <<>> /\ ~eof
  /\ IF "EofOnZeroRead" \in Dev /\ read - Upto(Pkts, emitted) = 1 /\ read < Total
     THEN ended' = TRUE /\ rdWaker' = rdWaker
     ELSE rdWaker' = TRUE /\ ended' = ended
  /\ inPoll' = FALSE
  /\ UNCHANGED <<chunks, arrived, eof, read, emitted, woken>>

ReadEnd ==
  /\ inPoll /\ chunks = <<>> /\ eof
  /\ ended' = TRUE /\ inPoll' = FALSE
  /\ UNCHANGED <<chunks, arrived, eof, read, emitted, rdWaker, woken>>

Next == (\E n \in 1..Total : Arrive(n)) \/ End \/ PollBegin \/ ReadData \/ ReadPending \/ ReadEnd
Spec == Init /\ [][Next]_vars
FairSpec == Spec /\ WF_vars(PollBegin) /\ WF_vars(ReadData) /\ WF_vars(ReadPending) /\ WF_vars(ReadEnd)

Quiescent == ~inPoll /\ ~woken /\ ~ended

TypeOK == read <= arrived /\ arrived <= Total /\ emitted <= Len(Pkts) /\ Sum(chunks) = arrived - read
ChunkIndependent == Quiescent => (read = arrived /\ emitted = Whole(Pkts, arrived))
NoLostWakeup == Quiescent => (chunks = <<>> /\ ~eof /\ rdWaker)
NoEarlyEnd == ended => eof
EmitOrder == emitted = Whole(Pkts, read)       \* exactly the packets wholly read, in stream order (never ahead, never skipped)

\* liveness: everything sent is eventually emitted and the end eventually reported
AllEmitted == <>(eof => ended /\ emitted = Len(Pkts))
=============================================================================
