----------------------------- MODULE QuotaInd -----------------------------
(* Unbounded strengthening for C10 (DESIGN.md section 6, C10): the flow-control arithmetic of   *)
(* PosterCore (HandleMsg: refuse at quota 0, else quota - 1; FreeSlot: quota + 1 bounded by R)  *)
(* keeps  quota + outstanding = R  for EVERY Receive Maximum R, not only the R in {1,2} of the  *)
(* TLC configurations.  Checked with Apalache as an inductive invariant:                        *)
(*   apalache-mc check --init=IndInit --inv=IndInv --length=1 QuotaInd.tla    (induction step)  *)
(*   apalache-mc check --init=Init    --inv=IndInv --length=0 QuotaInd.tla    (base case)       *)
(* The transcription of the two arithmetic rules is by hand (PosterCore's records are not       *)
(* annotated for Apalache); the binding of those rules to the code is PosterTrace's job.         *)
EXTENDS Integers

CONSTANT
  \* @type: Int;
  R

VARIABLES
  \* @type: Int;
  quota,
  \* @type: Int;
  out

ConstInit == R \in 1..65535

Init == quota = R /\ out = 0

\* a QoS>0 publish is handled: refused (nothing changes) iff no slot is free
Publish ==
  \/ (quota = 0 /\ UNCHANGED <<quota, out>>)
  \/ (quota > 0 /\ quota' = quota - 1 /\ out' = out + 1)

\* a completing acknowledgement (PUBACK, PUBCOMP, failing PUBREC) of an outstanding publish is handled
Complete ==
  /\ out > 0
  /\ out' = out - 1
  /\ quota' = IF quota < R THEN quota + 1 ELSE quota

Next == Publish \/ Complete

IndInv == quota \in 0..R /\ out \in 0..R /\ quota + out = R
IndInit == R \in 1..65535 /\ IndInv

\* consequences: Receive Maximum never exceeded; refusal exactly when R are outstanding; all slots come back
Safe == out <= R /\ (quota = 0 <=> out = R) /\ (out = 0 => quota = R)
=============================================================================
