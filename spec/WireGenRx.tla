----------------------------- MODULE WireGenRx -----------------------------
(* Enumerates well-formed server packets (C02): every packet type, subsets and orders of the      *)
(* properties legal for it, repeated user properties, every legal reason code, the shortened      *)
(* forms, boundary lengths and identifiers - and writes per case the value every public accessor  *)
(* must return (MqttWire), plus the encoded length (cross-check of the harness encoder).          *)
EXTENDS MqttWire, Json, IOUtils, Sequences, SequencesExt, Randomization

Thorough == IOEnv.TIER = "thorough"
Out(name) == IOEnv.OUTDIR \o "/" \o name

Case0 == [t |-> "NONE", form |-> 9, sp |-> FALSE, rc |-> 0, id |-> 0, qos |-> 0, dup |-> 0, retain |-> 0,
          topic |-> NoF, payload |-> NoF, props |-> <<>>, rcs |-> <<>>]

\* all orderings of a set of (distinct) properties, as sequences
RECURSIVE Perms(_)
Perms(S) == IF S = {} THEN {<<>>} ELSE UNION {{<<x>> \o p : p \in Perms(S \ {x})} : x \in S}
\* subsets of size <= k, each in every order when small, else in one canonical and one reversed order
Orders(S) == IF Cardinality(S) <= 3 THEN Perms(S)
             ELSE LET one == SetToSeq(S) IN {one, Reverse(one)}
Ups1 == PP(38, F("k", 1), F("v", 2))
Ups2 == PP(38, F("k", 1), F("w~", 5))
Ups3 == PP(38, F("j", 1), F("x", 1))
\* (the last form repeats a key with another key in between: the order the server wrote is the order exposed)
WithUps(ps) == {ps, <<Ups1>> \o ps, ps \o <<Ups1, Ups2>>, <<Ups1>> \o ps \o <<Ups2, Ups1>>, <<Ups1, Ups3>> \o ps \o <<Ups2, Ups3, Ups1>>}

U32s == {<<0, 0, 0, 0>>, <<0, 0, 0, 1>>, <<255, 255, 255, 255>>, <<0, 1, 0, 0>>, <<0, 1, 0, 1>>, <<1, 0, 0, 1>>, <<127, 255, 255, 255>>, <<222, 173, 190, 239>>}
SLens == {0, 1, 127, 128, 16383, 16384, 65535}

\* --------------------------------------------------------------------------------------------- CONNACK
ConnackPropPool ==
  {PQ(17, <<0, 0, 0, 60>>), PI(33, 20), PI(36, 1), PI(37, 0), PQ(39, <<0, 0, 4, 0>>), PS(18, F("assigned", 8)), PI(34, 7),
   PS(31, F("why~", 6)), PI(40, 0), PI(42, 0), PI(19, 120), PS(26, F("ri", 2)), PS(28, F("srv", 3)), PS(21, F("m", 1)), PS(22, F("d", 4))}
ConnackSubsets == IF Thorough THEN {S \in SUBSET ConnackPropPool : Cardinality(S) <= 3 \/ Cardinality(S) >= 13}
                  ELSE {S \in SUBSET ConnackPropPool : Cardinality(S) <= 2 \/ Cardinality(S) >= 14}
ConnackReasons == {0, 128, 129, 130, 131, 132, 133, 134, 135, 136, 137, 138, 140, 144, 149, 151, 153, 154, 155, 156, 157, 159}
ConnackCases ==
  UNION { UNION { { [Case0 EXCEPT !.t = "CONNACK", !.props = q, !.sp = sp, !.rc = 0] : q \in WithUps(p), sp \in BOOLEAN } : p \in Orders(S) } : S \in ConnackSubsets }
  \cup { [Case0 EXCEPT !.t = "CONNACK", !.rc = rc, !.props = ps] : rc \in ConnackReasons,
           ps \in {<<>>, <<PS(31, F("no", 2)), Ups1, Ups2>>, <<Ups1, PS(28, F("other", 5)), PS(31, F("moved", 5))>>} }
  \* a refusal may carry any CONNACK property, including "Subscription Identifiers unavailable" (only the successful CONNACK
  \* announcing that is excluded by the property): the error accessors must still report the wire values
  \cup UNION { UNION { { [Case0 EXCEPT !.t = "CONNACK", !.rc = rc, !.props = q] : q \in WithUps(p), rc \in {128, 135, 157} } : p \in Orders(S) }
              : S \in {T \in SUBSET (ConnackPropPool \cup {PI(41, 0), PI(41, 1)}) : Cardinality(T) \in 1..2 /\ ~({PI(41, 0), PI(41, 1)} \subseteq T)} }
  \cup { [Case0 EXCEPT !.t = "CONNACK", !.props = <<p>>] : p \in
           {PQ(17, x) : x \in U32s} \cup {PQ(39, x) : x \in U32s \ {<<0, 0, 0, 0>>}} \cup {PI(33, x) : x \in {1, 255, 256, 65535}}
           \cup {PI(34, x) : x \in {0, 1, 65535}} \cup {PI(19, x) : x \in {0, 1, 65535}} \cup {PI(36, x) : x \in {0, 1}}
           \cup {PI(37, x) : x \in {0, 1}} \cup {PI(40, x) : x \in {0, 1}} \cup {PI(42, x) : x \in {0, 1}} \cup {PI(41, 1)}
           \cup {PS(18, F("a~", n)) : n \in SLens} \cup {PS(31, F("r", n)) : n \in SLens} \cup {PS(26, F("i", n)) : n \in SLens}
           \cup {PS(28, F("s", n)) : n \in SLens} \cup {PS(21, F("m", n)) : n \in SLens} \cup {PS(22, F("d", n)) : n \in SLens}
           \cup {PP(38, F("k~", n), F("v", m)) : n \in {0, 128, 65535}, m \in {0, 127}} }
ASSUME PrintT(<<"connack cases", Cardinality(ConnackCases)>>)
ASSUME ndJsonSerialize(Out("rx_connack.ndjson"),
  SetToSeq({[c |-> c, len |-> RxLen(c), acc |-> IF IsFailRc(c.rc) THEN [err |-> ConnackErrAcc(c)] ELSE [ok |-> ConnackAcc(c)]] : c \in ConnackCases}))

\* ------------------------------------------------------------------------------------------------ AUTH
AuthPool == {PS(21, F("m", 3)), PS(22, F("chal", 4)), PS(31, F("go on", 5))}
\* the Authentication Method is mandatory in AUTH (omitting it is a protocol error), the data is optional;
\* only reason 0x00 without any property may use the shortened forms
AuthCases ==
  UNION { UNION { { [Case0 EXCEPT !.t = "AUTH", !.rc = rc, !.props = q, !.form = 2] : q \in WithUps(p), rc \in {0, 24, 25} } : p \in Orders(S) }
          : S \in {T \in SUBSET AuthPool : PS(21, F("m", 3)) \in T} }
  \cup { [Case0 EXCEPT !.t = "AUTH", !.rc = 0, !.form = 0], [Case0 EXCEPT !.t = "AUTH", !.rc = 0, !.form = 1] }
  \cup { [Case0 EXCEPT !.t = "AUTH", !.rc = 24, !.form = 2, !.props = <<PS(21, F("m~", n)), PS(22, F("d", m))>>] : n \in SLens, m \in {0, 128, 65535} }
ASSUME ndJsonSerialize(Out("rx_auth.ndjson"), SetToSeq({[c |-> c, len |-> RxLen(c), acc |-> [ok |-> AuthAcc(c)]] : c \in AuthCases}))

\* --------------------------------------------------------------------------------------------- PUBLISH
PubPool == {PI(1, 1), PQ(2, <<0, 0, 0, 9>>), PI(35, 3), PS(9, F("cd", 2)), PS(8, F("rt~", 5)), PS(3, F("ct", 2))}
PubSubsets == IF Thorough THEN SUBSET PubPool ELSE {S \in SUBSET PubPool : Cardinality(S) <= 2 \/ Cardinality(S) >= 5}
Sid == PI(11, 1)          \* the subscription identifier of the stream under test
PublishCases ==
  UNION { UNION { { [Case0 EXCEPT !.t = "PUBLISH", !.qos = q, !.dup = d, !.retain = r, !.id = 9, !.topic = F("top", 3), !.payload = F("pay", 4), !.props = pp] :
                      q \in {0, 1, 2}, d \in {0, 1}, r \in {0, 1}, pp \in {<<Sid>> \o x : x \in WithUps(p)} \cup {p \o <<Sid>>} } : p \in Orders(S) } : S \in PubSubsets }
  \cup { [Case0 EXCEPT !.t = "PUBLISH", !.qos = 1, !.id = id, !.topic = F("t", n), !.payload = F("p", m), !.props = <<Sid>>] :
           id \in {1, 255, 256, 65535}, n \in {1, 127, 128, 400}, m \in {0, 1, 100, 500, 505, 506, 507, 508, 509, 510, 511, 512, 513, 1010, 1020, 1024, 1030, 2000, 16383, 70000} }
  \cup { [Case0 EXCEPT !.t = "PUBLISH", !.qos = 0, !.topic = F("t~", n), !.payload = F("p", 3), !.props = <<Sid, PS(8, F("r", m))>>] : n \in SLens \ {0}, m \in {0, 128, 65535} }
  \cup { [Case0 EXCEPT !.t = "PUBLISH", !.qos = 2, !.id = 3, !.topic = F("t", 2), !.payload = F("p", 3), !.props = <<PI(11, s), Sid>>] :
           s \in {2, 127, 128, 16383, 16384, 2097151, 2097152, 268435455} }
  \cup { [Case0 EXCEPT !.t = "PUBLISH", !.qos = 0, !.topic = F("t", 2), !.payload = F("p", 3), !.props = <<Sid, p>>] :
           p \in {PQ(2, x) : x \in U32s} \cup {PI(35, x) : x \in {1, 65535}} \cup {PI(1, 0)} \cup {PS(9, F("c", n)) : n \in SLens} \cup {PS(3, F("c~", n)) : n \in SLens} }
  \* a zero-length Topic Name is legal when a Topic Alias stands in for it (3.3.2.1): accepted, both values exposed as sent
  \cup { [Case0 EXCEPT !.t = "PUBLISH", !.qos = q, !.id = 5, !.topic = F("", 0), !.payload = F("p", 3), !.props = pp] :
           q \in {0, 1, 2}, pp \in {<<Sid, PI(35, 1)>>, <<PI(35, 65535), Sid>>, <<PI(35, 2), Sid, Ups1>>} }
ASSUME PrintT(<<"publish cases", Cardinality(PublishCases)>>)
ASSUME ndJsonSerialize(Out("rx_publish.ndjson"), SetToSeq({[c |-> c, len |-> RxLen(c), acc |-> [ok |-> PublishAcc(c)]] : c \in PublishCases}))

\* ------------------------------------------------------------------------- PUBACK PUBREC PUBREL PUBCOMP
AckReasons(t) == CASE t \in {"PUBACK", "PUBREC"} -> {0, 16, 128, 131, 135, 144, 145, 151, 153} [] OTHER -> {0, 146}
AckProps == {<<>>, <<PS(31, F("why", 3))>>, <<Ups1>>, <<Ups1, PS(31, F("why~", 7)), Ups2>>, <<PS(31, F("w", 0))>>, <<PS(31, F("w", 128)), Ups2, Ups1, Ups1>>}
AckCases ==
  UNION { { [Case0 EXCEPT !.t = t, !.rc = rc, !.props = ps, !.id = 1, !.form = 4] : rc \in AckReasons(t), ps \in AckProps } : t \in {"PUBACK", "PUBREC", "PUBREL", "PUBCOMP"} }
  \cup { [Case0 EXCEPT !.t = t, !.rc = 0, !.id = 1, !.form = 2] : t \in {"PUBACK", "PUBREC", "PUBREL", "PUBCOMP"} }
  \cup UNION { { [Case0 EXCEPT !.t = t, !.rc = rc, !.id = 1, !.form = 3] : rc \in AckReasons(t) } : t \in {"PUBACK", "PUBREC", "PUBREL", "PUBCOMP"} }
ASSUME ndJsonSerialize(Out("rx_ack.ndjson"), SetToSeq({[c |-> c, len |-> RxLen(c), acc |-> [ok |-> AckAcc(c)]] : c \in AckCases}))

\* ------------------------------------------------------------------------------------ SUBACK UNSUBACK
SubackReasons == {0, 1, 2, 128, 131, 135, 143, 145, 151, 158, 161, 162}
UnsubackReasons == {0, 17, 128, 131, 135, 143, 145}
SubackCases ==
  { [Case0 EXCEPT !.t = "SUBACK", !.id = 1, !.rcs = <<r>>, !.props = ps] : r \in SubackReasons, ps \in AckProps }
  \cup { [Case0 EXCEPT !.t = "SUBACK", !.id = 1, !.rcs = rs] : rs \in {<<0, 1, 2>>, <<128, 0>>, <<2, 2, 2, 2, 135, 1>>} }
  \cup { [Case0 EXCEPT !.t = "UNSUBACK", !.id = 1, !.rcs = <<r>>, !.props = ps] : r \in UnsubackReasons, ps \in AckProps }
  \cup { [Case0 EXCEPT !.t = "UNSUBACK", !.id = 1, !.rcs = rs] : rs \in {<<0, 17>>, <<128, 0, 17, 145>>} }
ASSUME ndJsonSerialize(Out("rx_suback.ndjson"), SetToSeq({[c |-> c, len |-> RxLen(c), acc |-> [ok |-> SubackAcc(c)]] : c \in SubackCases}))

\* ------------------------------------------------------------------------------------------ DISCONNECT
DiscReasons == {0, 4, 128, 129, 130, 131, 135, 137, 139, 141, 142, 143, 144, 147, 148, 149, 150, 151, 152, 153, 154, 155, 156, 157, 158, 159, 160, 161, 162}
DiscPool == {PS(31, F("bye~", 6)), PS(28, F("other", 5))}
DisconnectCases ==
  UNION { UNION { { [Case0 EXCEPT !.t = "DISCONNECT", !.rc = rc, !.props = q, !.form = 2] : q \in WithUps(p), rc \in DiscReasons } : p \in Orders(S) } : S \in SUBSET DiscPool }
  \cup { [Case0 EXCEPT !.t = "DISCONNECT", !.rc = 0, !.form = 0] } \cup { [Case0 EXCEPT !.t = "DISCONNECT", !.rc = rc, !.form = 1] : rc \in DiscReasons }
  \cup { [Case0 EXCEPT !.t = "DISCONNECT", !.rc = 139, !.form = 2, !.props = <<PS(31, F("r", n)), PS(28, F("s~", m))>>] : n \in SLens, m \in {0, 128, 65535} }
ASSUME ndJsonSerialize(Out("rx_disconnect.ndjson"), SetToSeq({[c |-> c, len |-> RxLen(c), acc |-> [ok |-> DisconnectAcc(c)]] : c \in DisconnectCases}))

ASSUME ndJsonSerialize(Out("rx_pingresp.ndjson"), <<[c |-> [Case0 EXCEPT !.t = "PINGRESP"], len |-> 2, acc |-> [ok |-> [x |-> 0]]]>>)
=============================================================================
