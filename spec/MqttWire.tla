------------------------------ MODULE MqttWire ------------------------------
(* Executable reference of the MQTT 5 wire semantics needed for C01/C02, written from the OASIS    *)
(* standard: for every client request (option record -> the packet a conformant encoder must      *)
(* produce: type, flag bits, which fields and properties are present with which values, total     *)
(* encoded length) and for every server packet (fields and properties in wire order, shortened    *)
(* forms -> the value every public accessor must return, with the standard's defaults for absent  *)
(* properties).  TLC enumerates the case spaces (WireGen) and writes one JSON record per case;     *)
(* the harness drives each case through the real client and compares.                              *)
(*                                                                                                 *)
(* Conventions: a string or binary is a filler [tag, n] (n bytes determined by tag); a four-byte   *)
(* integer is a tuple of its four bytes (TLC integers are 32-bit signed); an optional value is a   *)
(* sequence of length 0 or 1.                                                                      *)
EXTENDS MqttLen, FiniteSets, TLC

F(tag, n) == [tag |-> tag, n |-> n]
Opt(S) == {<<>>} \cup {<<x>> : x \in S}
Has(o) == o # <<>>
IsFailRc(rc) == rc >= 128
B2N(b) == IF b THEN 1 ELSE 0

\* a property as it appears in a packet: [id, k, i, s, s2, q]  (k = kind; i = integer value; s, s2 = fillers; q = four bytes)
NoF == F("", 0)
PI(id, v)      == [id |-> id, k |-> PropKind(id), i |-> v, s |-> NoF, s2 |-> NoF, q |-> <<0, 0, 0, 0>>]
PQ(id, q)      == [id |-> id, k |-> "d", i |-> 0, s |-> NoF, s2 |-> NoF, q |-> q]
PS(id, s)      == [id |-> id, k |-> PropKind(id), i |-> 0, s |-> s, s2 |-> NoF, q |-> <<0, 0, 0, 0>>]
PP(id, s1, s2) == [id |-> id, k |-> "p", i |-> 0, s |-> s1, s2 |-> s2, q |-> <<0, 0, 0, 0>>]

PLen(p) == PropLen(<<p.id, IF p.k = "v" THEN p.i ELSE p.s.n, p.s2.n>>)
PropsLen(ps) == SumSeq([i \in 1..Len(ps) |-> PLen(ps[i])])
PropsFieldLen(ps) == VBILen(PropsLen(ps)) + PropsLen(ps)

OptI(id, o)  == IF Has(o) THEN <<PI(id, o[1])>> ELSE <<>>
OptB(id, o)  == IF Has(o) THEN <<PI(id, B2N(o[1]))>> ELSE <<>>
OptQ(id, o)  == IF Has(o) THEN <<PQ(id, o[1])>> ELSE <<>>
OptS(id, o)  == IF Has(o) THEN <<PS(id, o[1])>> ELSE <<>>
Ups(ups)     == [i \in 1..Len(ups) |-> PP(38, ups[i][1], ups[i][2])]

\* ---------------------------------------------------------------------------------------------
\* client -> server: what the packet for an option record must be
\*   expectation record: [refused, t, flags, hasid, len, topic, payload, props, filters, cflags, keepalive, cid, will, user, pass, rc, short]

NoWill == [on |-> FALSE, props |-> <<>>, topic |-> NoF, payload |-> NoF]
Exp0 == [refused |-> FALSE, t |-> "NONE", flags |-> 0, hasid |-> FALSE, len |-> 0, lens |-> {}, topic |-> NoF, payload |-> NoF,
         props |-> <<>>, filters |-> <<>>, cflags |-> 0, keepalive |-> 0, cid |-> NoF, will |-> NoWill,
         user |-> <<>>, pass |-> <<>>, rc |-> 0]

\* PUBLISH options: [qos, retain, topic, payload, pfi, mei, alias, corr, resp, ctype, ups]
PublishExpect(o) ==
  IF ~Has(o.topic) THEN [Exp0 EXCEPT !.refused = TRUE, !.t = "PUBLISH"]
  ELSE LET q == IF Has(o.qos) THEN o.qos[1] ELSE 0
           ret == Has(o.retain) /\ o.retain[1]
           ps == OptB(1, o.pfi) \o OptQ(2, o.mei) \o OptI(35, o.alias) \o OptS(9, o.corr) \o OptS(8, o.resp) \o OptS(3, o.ctype) \o Ups(o.ups)
           pl == IF Has(o.payload) THEN o.payload[1] ELSE NoF
           rem == 2 + o.topic[1].n + (IF q > 0 THEN 2 ELSE 0) + PropsFieldLen(ps) + pl.n
       IN [Exp0 EXCEPT !.t = "PUBLISH", !.flags = 2 * q + B2N(ret), !.hasid = q > 0, !.topic = o.topic[1], !.payload = pl,
                       !.props = ps, !.len = Framed(rem), !.lens = {Framed(rem)}]

\* SUBSCRIBE options: [filters: seq of [f, qos, nl, rap, rh], ups]; the library adds one subscription identifier
SubOptByte(f) == f.qos + 4 * B2N(f.nl) + 8 * B2N(f.rap) + 16 * f.rh
SubscribeExpect(o) ==
  IF o.filters = <<>> THEN [Exp0 EXCEPT !.refused = TRUE, !.t = "SUBSCRIBE"]
  ELSE LET ps == Ups(o.ups)
           flt == [i \in 1..Len(o.filters) |-> [f |-> o.filters[i].f, o |-> SubOptByte(o.filters[i])]]
           body == SumSeq([i \in 1..Len(flt) |-> 3 + flt[i].f.n])
           remFor(sidlen) == 2 + VBILen(PropsLen(ps) + 1 + sidlen) + PropsLen(ps) + 1 + sidlen + body
       IN [Exp0 EXCEPT !.t = "SUBSCRIBE", !.flags = 2, !.hasid = TRUE, !.props = ps, !.filters = flt,
                       !.lens = {Framed(remFor(n)) : n \in 1..4}]        \* the identifier's own width depends on its value

UnsubscribeExpect(o) ==
  IF o.filters = <<>> THEN [Exp0 EXCEPT !.refused = TRUE, !.t = "UNSUBSCRIBE"]
  ELSE LET ps == Ups(o.ups)
           flt == [i \in 1..Len(o.filters) |-> [f |-> o.filters[i].f, o |-> 0]]
           rem == 2 + PropsFieldLen(ps) + SumSeq([i \in 1..Len(flt) |-> 2 + flt[i].f.n])
       IN [Exp0 EXCEPT !.t = "UNSUBSCRIBE", !.flags = 2, !.hasid = TRUE, !.props = ps, !.filters = flt, !.lens = {Framed(rem)}]

\* DISCONNECT options: [reason, sei, rs, ups]; reason 0x00 without properties may use the short forms
DisconnectExpect(o) ==
  LET rc == IF Has(o.reason) THEN o.reason[1] ELSE 0
      ps == OptQ(17, o.sei) \o OptS(31, o.rs) \o Ups(o.ups)
      long == Framed(1 + PropsFieldLen(ps))
  IN [Exp0 EXCEPT !.t = "DISCONNECT", !.rc = rc, !.props = ps,
                  !.lens = IF ps = <<>> THEN (IF rc = 0 THEN {2, 3, long} ELSE {3, long}) ELSE {long}]

\* AUTH options: [reason, method, data, ups]  (the reason string cannot be set through the public API)
AuthExpect(o) ==
  \* extended authentication needs both method and data; only the bare "reason 0x00, nothing else" packet goes without
  IF ~(Has(o.method) /\ Has(o.data)) /\ (Has(o.method) \/ Has(o.data) \/ o.ups # <<>> \/ (Has(o.reason) /\ o.reason[1] # 0))
  THEN [Exp0 EXCEPT !.refused = TRUE, !.t = "AUTH"]
  ELSE LET rc == IF Has(o.reason) THEN o.reason[1] ELSE 0
           ps == OptS(21, o.method) \o OptS(22, o.data) \o Ups(o.ups)
           long == Framed(1 + PropsFieldLen(ps))
       IN [Exp0 EXCEPT !.t = "AUTH", !.rc = rc, !.props = ps,
                       !.lens = IF ps = <<>> THEN (IF rc = 0 THEN {2, 3, long} ELSE {3, long}) ELSE {long}]

\* CONNECT options: [cid, keepalive, clean, sei, recvmax, maxpkt, aliasmax, reqresp, reqprob, method, data, ups,
\*                   will: [on, qos, retain, delay, pfi, mei, ctype, resp, corr, ups, topic, payload], user, pass]
ConnectExpect(o) ==
  IF Has(o.data) /\ ~Has(o.method) THEN [Exp0 EXCEPT !.refused = TRUE, !.t = "CONNECT"]
  ELSE LET ps == OptQ(17, o.sei) \o OptI(33, o.recvmax) \o OptQ(39, o.maxpkt) \o OptI(34, o.aliasmax) \o OptB(25, o.reqresp)
                 \o OptB(23, o.reqprob) \o Ups(o.ups) \o OptS(21, o.method) \o OptS(22, o.data)
           w == o.will
           wps == OptQ(24, w.delay) \o OptB(1, w.pfi) \o OptQ(2, w.mei) \o OptS(3, w.ctype) \o OptS(8, w.resp) \o OptS(9, w.corr) \o Ups(w.ups)
           cid == IF Has(o.cid) THEN o.cid[1] ELSE NoF
           wq == IF w.on /\ Has(w.qos) THEN w.qos[1] ELSE 0
           wr == w.on /\ Has(w.retain) /\ w.retain[1]
           cf == 2 * B2N(Has(o.clean) /\ o.clean[1]) + 4 * B2N(w.on) + 8 * wq + 32 * B2N(wr) + 64 * B2N(Has(o.pass)) + 128 * B2N(Has(o.user))
           rem == 10 + PropsFieldLen(ps) + 2 + cid.n
                  + (IF w.on THEN PropsFieldLen(wps) + 2 + w.topic.n + 2 + w.payload.n ELSE 0)
                  + (IF Has(o.user) THEN 2 + o.user[1].n ELSE 0) + (IF Has(o.pass) THEN 2 + o.pass[1].n ELSE 0)
       IN [Exp0 EXCEPT !.t = "CONNECT", !.props = ps, !.cflags = cf, !.keepalive = IF Has(o.keepalive) THEN o.keepalive[1] ELSE 0,
                       !.cid = cid, !.will = [on |-> w.on, props |-> IF w.on THEN wps ELSE <<>>, topic |-> w.topic, payload |-> w.payload],
                       !.user = o.user, !.pass = o.pass, !.lens = {Framed(rem)}]

PingExpect == [Exp0 EXCEPT !.t = "PINGREQ", !.lens = {2}]

\* ---------------------------------------------------------------------------------------------
\* server -> client: what the accessors must return.
\*   a server packet case: [t, form, sp, rc, id, qos, dup, retain, topic, payload, props (wire order), rcs]
\*   expectation: [acc |-> record of accessor values]; optional accessors are sequences of length 0/1

FirstOf(ps, id) == LET idx == {i \in 1..Len(ps) : ps[i].id = id} IN
                   IF idx = {} THEN <<>> ELSE <<ps[CHOOSE i \in idx : \A j \in idx : i <= j]>>
OI(ps, id)  == LET f == FirstOf(ps, id) IN IF f = <<>> THEN <<>> ELSE <<f[1].i>>
OQ(ps, id)  == LET f == FirstOf(ps, id) IN IF f = <<>> THEN <<>> ELSE <<f[1].q>>
OS(ps, id)  == LET f == FirstOf(ps, id) IN IF f = <<>> THEN <<>> ELSE <<f[1].s>>
DefI(ps, id, d) == LET f == FirstOf(ps, id) IN IF f = <<>> THEN d ELSE f[1].i
UpsOf(ps)   == LET sel == SelectSeq(ps, LAMBDA p : p.id = 38) IN [i \in 1..Len(sel) |-> <<sel[i].s, sel[i].s2>>]
SidsOf(ps)  == LET sel == SelectSeq(ps, LAMBDA p : p.id = 11) IN [i \in 1..Len(sel) |-> sel[i].i]

ConnackAcc(c) ==
  [session_present |-> c.sp, reason |-> c.rc,
   wildcard_subscription_available |-> DefI(c.props, 40, 1) = 1,
   subscription_identifier_available |-> DefI(c.props, 41, 1) = 1,
   shared_subscription_available |-> DefI(c.props, 42, 1) = 1,
   maximum_qos |-> DefI(c.props, 36, 2),
   retain_available |-> DefI(c.props, 37, 1) = 1,
   server_keep_alive |-> OI(c.props, 19),
   receive_maximum |-> DefI(c.props, 33, 65535),
   topic_alias_maximum |-> DefI(c.props, 34, 0),
   session_expiry_interval |-> OQ(c.props, 17),
   maximum_packet_size |-> OQ(c.props, 39),
   assigned_client_identifier |-> OS(c.props, 18),
   reason_string |-> OS(c.props, 31),
   response_information |-> OS(c.props, 26),
   server_reference |-> OS(c.props, 28),
   authentication_method |-> OS(c.props, 21),
   authentication_data |-> OS(c.props, 22),
   user_properties |-> UpsOf(c.props)]

\* ConnectError exposes reason, reason string, server reference, user properties
ConnackErrAcc(c) == [reason |-> c.rc, reason_string |-> OS(c.props, 31), server_reference |-> OS(c.props, 28), user_properties |-> UpsOf(c.props)]

AuthAcc(c) ==     \* shortened forms: remaining length 0 = reason 0x00 and nothing else
  [reason |-> c.rc, reason_string |-> OS(c.props, 31), authentication_method |-> OS(c.props, 21),
   authentication_data |-> OS(c.props, 22), user_properties |-> UpsOf(c.props)]

PublishAcc(c) ==
  [dup |-> c.dup = 1, retain |-> c.retain = 1, qos |-> c.qos, topic_name |-> c.topic, payload |-> c.payload,
   payload_format_indicator |-> LET o == OI(c.props, 1) IN IF o = <<>> THEN <<>> ELSE <<o[1] = 1>>,
   topic_alias |-> OI(c.props, 35), message_expiry_interval |-> OQ(c.props, 2), correlation_data |-> OS(c.props, 9),
   response_topic |-> OS(c.props, 8), content_type |-> OS(c.props, 3), user_properties |-> UpsOf(c.props)]

\* PUBACK / PUBREC / PUBCOMP: short forms (remaining length 2: reason 0x00, no properties; 3: no properties)
AckAcc(c) == [reason |-> c.rc, reason_string |-> OS(c.props, 31), user_properties |-> UpsOf(c.props)]

SubackAcc(c) == [payload |-> c.rcs, reason_string |-> OS(c.props, 31), user_properties |-> UpsOf(c.props)]

DisconnectAcc(c) ==
  [reason |-> c.rc, session_expiry_interval |-> LET o == OQ(c.props, 17) IN IF o = <<>> THEN <<0, 0, 0, 0>> ELSE o[1],
   reason_string |-> OS(c.props, 31), server_reference |-> OS(c.props, 28), user_properties |-> UpsOf(c.props)]

\* encoded length of a server packet (used to cross-check the harness's encoder)
RxLen(c) ==
  CASE c.t = "CONNACK" -> Framed(2 + PropsFieldLen(c.props))
    [] c.t = "PUBLISH" -> Framed(2 + c.topic.n + (IF c.qos > 0 THEN 2 ELSE 0) + PropsFieldLen(c.props) + c.payload.n)
    [] c.t \in {"PUBACK", "PUBREC", "PUBREL", "PUBCOMP"} ->
         (IF c.form = 2 THEN 4 ELSE IF c.form = 3 THEN 5 ELSE Framed(3 + PropsFieldLen(c.props)))
    [] c.t \in {"SUBACK", "UNSUBACK"} -> Framed(2 + PropsFieldLen(c.props) + Len(c.rcs))
    [] c.t = "PINGRESP" -> 2
    [] c.t \in {"DISCONNECT", "AUTH"} -> (IF c.form = 0 THEN 2 ELSE IF c.form = 1 THEN 3 ELSE Framed(1 + PropsFieldLen(c.props)))
    [] OTHER -> 0
=============================================================================
