SPECIFICATION Spec
CONSTANTS
  Pkts <- PktsFull
  Dev = {}
INVARIANTS TypeOK ChunkIndependent NoLostWakeup NoEarlyEnd EmitOrder
CHECK_DEADLOCK FALSE
