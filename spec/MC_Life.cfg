SPECIFICATION Spec
CONSTANTS
  NOps = 2
  Kinds = {"pub1", "pub2", "sub", "ping", "disc"}
  Rmax = 2
  Msz = 0
  IdN = 3
  MaxIn = 1
  InQos = {1}
  InIds = {1}
  Reasons = {0, 128}
  MaxCancel = 1
  MaxSpur = 0
  Endings = {"eof", "ctxdrop", "srvdisc", "handles"}
  SeiSet = {"never"}
  ReR = {2}
  ReM = {0}
  Handshake = "none"
  RecordSched = FALSE
  Dev = {}
VIEW view
CONSTRAINT Proviso
INVARIANTS TypeOK Inv_C05 Inv_C06 Inv_C07 Inv_C08 Inv_C10 Inv_C13 Inv_C14 Inv_C15 Inv_C16 NoLostWakeup
CHECK_DEADLOCK FALSE
