//! Deterministic single-threaded simulation of one poster client: the real Context and
//! ContextHandle driven through the mock transport with hand-made wakers. Every observable
//! event at the public boundary is appended to the NDJSON trace.

use crate::io::{End, IoEv, Pipe, Reader, Writer, WrMode};
use crate::mqtt::{self, Pk, Prop, PV};
use crate::opts::*;
use either::Either;
use futures::stream::Stream;
use poster::error::MqttError;
use poster::{Context, ContextHandle, PublishData};

pub type DynStream = Pin<Box<dyn Stream<Item = PublishData>>>;
use serde_json::{json, Value};
use std::collections::{BTreeMap, VecDeque};
use std::future::Future;
use std::panic::{catch_unwind, AssertUnwindSafe};
use std::pin::Pin;
use std::sync::atomic::{AtomicBool, AtomicU64, AtomicUsize, Ordering};
use std::sync::{Arc, Mutex};
use std::task::{Context as TaskCx, Poll, Wake, Waker};

/// Watchdog (see `main`): the moment, in milliseconds since the process started (+1), at which the poll of a library
/// future now running began; 0 while the harness itself runs.  A single poll that does not return is a wedged client
/// (C04): no poll count can see it, only the clock.
pub static IN_POLL: AtomicU64 = AtomicU64::new(0);

pub fn clock_ms() -> u64 {
    static T0: std::sync::OnceLock<std::time::Instant> = std::sync::OnceLock::new();
    T0.get_or_init(std::time::Instant::now).elapsed().as_millis() as u64
}

fn timed<R>(f: impl FnOnce() -> R) -> R {
    IN_POLL.store(clock_ms() + 1, Ordering::SeqCst);
    let r = f();
    IN_POLL.store(0, Ordering::SeqCst);
    r
}

pub struct Flag {
    pub woken: AtomicBool,
    pub wakes: AtomicUsize,
}

impl Flag {
    pub fn new(w: bool) -> Arc<Flag> {
        Arc::new(Flag { woken: AtomicBool::new(w), wakes: AtomicUsize::new(0) })
    }
    pub fn is(&self) -> bool {
        self.woken.load(Ordering::SeqCst)
    }
    pub fn clear(&self) {
        self.woken.store(false, Ordering::SeqCst)
    }
    pub fn set(&self) {
        self.woken.store(true, Ordering::SeqCst)
    }
}

impl Wake for Flag {
    fn wake(self: Arc<Self>) {
        self.woken.store(true, Ordering::SeqCst);
        self.wakes.fetch_add(1, Ordering::SeqCst);
    }
    fn wake_by_ref(self: &Arc<Self>) {
        self.woken.store(true, Ordering::SeqCst);
        self.wakes.fetch_add(1, Ordering::SeqCst);
    }
}

pub enum OpOut {
    Done(Value),
    Sub(Value, DynStream),
}

pub enum Cmd {
    SetUp(Pipe),
    Connect(Value),
    Authorize(Value),
    Run,
    MarkDisc(u64),
}

type CtxT = Context<Reader, Writer>;

struct NextCmd(Arc<Mutex<VecDeque<Cmd>>>);
impl Future for NextCmd {
    type Output = Cmd;
    fn poll(self: Pin<&mut Self>, _cx: &mut TaskCx<'_>) -> Poll<Cmd> {
        match self.0.lock().unwrap().pop_front() {
            Some(c) => Poll::Ready(c),
            None => Poll::Pending, // the driver marks the task woken when it queues a command
        }
    }
}

pub fn res_rec(r: &str, kind: &str, rc: u32, x: &str) -> Value {
    json!({"r": r, "kind": kind, "rc": rc, "x": x})
}

fn ups_props(up: &poster::UserProperties) -> Vec<Prop> {
    up.iter()
        .map(|(k, v)| Prop { id: 0x26, v: PV::Pair(k.as_bytes().to_vec(), v.as_bytes().to_vec()) })
        .collect()
}

fn rs_props(rs: Option<&str>, up: &poster::UserProperties) -> Vec<Prop> {
    let mut p = vec![];
    if let Some(s) = rs {
        p.push(Prop { id: 0x1f, v: PV::Str(s.as_bytes().to_vec()) });
    }
    p.extend(ups_props(up));
    p
}

pub fn sum_err(e: &MqttError) -> Value {
    match e {
        MqttError::InternalError(_) => res_rec("err", "InternalError", 0, ""),
        MqttError::ConnectError(c) => {
            let mut p = rs_props(c.reason_string(), c.user_properties());
            if let Some(s) = c.server_reference() {
                p.push(Prop { id: 0x1c, v: PV::Str(s.as_bytes().to_vec()) });
            }
            res_rec("err", "ConnectError", c.reason() as u8 as u32, &mqtt::content_digest(&p, b"", b""))
        }
        MqttError::AuthError(c) => res_rec(
            "err",
            "AuthError",
            c.reason() as u8 as u32,
            &mqtt::content_digest(&rs_props(c.reason_string(), c.user_properties()), b"", b""),
        ),
        MqttError::PubackError(c) => res_rec(
            "err",
            "PubackError",
            c.reason() as u8 as u32,
            &mqtt::content_digest(&rs_props(c.reason_string(), c.user_properties()), b"", b""),
        ),
        MqttError::PubrecError(c) => res_rec(
            "err",
            "PubrecError",
            c.reason() as u8 as u32,
            &mqtt::content_digest(&rs_props(c.reason_string(), c.user_properties()), b"", b""),
        ),
        MqttError::PubcompError(c) => res_rec(
            "err",
            "PubcompError",
            c.reason() as u8 as u32,
            &mqtt::content_digest(&rs_props(c.reason_string(), c.user_properties()), b"", b""),
        ),
        MqttError::CodecError(_) => res_rec("err", "CodecError", 0, ""),
        MqttError::SocketClosed(_) => res_rec("err", "SocketClosed", 0, ""),
        MqttError::HandleClosed(_) => res_rec("err", "HandleClosed", 0, ""),
        MqttError::ContextExited(_) => res_rec("err", "ContextExited", 0, ""),
        MqttError::Disconnected(d) => {
            let mut p = rs_props(d.reason_string(), d.user_properties());
            if let Some(s) = d.server_reference() {
                p.push(Prop { id: 0x1c, v: PV::Str(s.as_bytes().to_vec()) });
            }
            let sei = d.session_expiry_interval().as_secs();
            if sei != 0 {
                // absent reads as 0 (the accessor has no Option), so 0 is left out on both sides
                p.push(Prop { id: 0x11, v: PV::U32(sei as u32) });
            }
            res_rec("err", "Disconnected", d.reason() as u8 as u32, &mqtt::content_digest(&p, b"", b""))
        }
        MqttError::QuotaExceeded(_) => res_rec("err", "QuotaExceeded", 0, ""),
        MqttError::MaximumPacketSizeExceeded(_) => res_rec("err", "MaximumPacketSizeExceeded", 0, ""),
    }
}

pub fn sum_publish_data(d: &poster::PublishData) -> Value {
    let mut p = vec![];
    if let Some(b) = d.payload_format_indicator() {
        p.push(Prop { id: 0x01, v: PV::Byte(b as u8) });
    }
    if let Some(v) = d.message_expiry_interval() {
        p.push(Prop { id: 0x02, v: PV::U32(v.as_secs() as u32) });
    }
    if let Some(v) = d.topic_alias() {
        p.push(Prop { id: 0x23, v: PV::U16(v) });
    }
    if let Some(v) = d.correlation_data() {
        p.push(Prop { id: 0x09, v: PV::Bin(v.to_vec()) });
    }
    if let Some(v) = d.response_topic() {
        p.push(Prop { id: 0x08, v: PV::Str(v.as_bytes().to_vec()) });
    }
    if let Some(v) = d.content_type() {
        p.push(Prop { id: 0x03, v: PV::Str(v.as_bytes().to_vec()) });
    }
    p.extend(ups_props(d.user_properties()));
    let topic = d.topic_name().as_bytes().to_vec();
    json!({
        "t": "PUBLISH", "id": 0, "qos": d.qos() as u8, "dup": d.dup() as u8, "retain": d.retain() as u8,
        "rc": 0, "sids": [], "tag": String::from_utf8_lossy(&topic), "len": 0,
        "x": mqtt::content_digest(&p, &topic, d.payload()),
        "pd": mqtt::digest_bytes(d.payload()),
    })
}

pub fn empty_abs() -> Value {
    json!({"t": "NONE", "id": 0, "qos": 0, "dup": 0, "retain": 0, "rc": 0, "sids": [], "tag": "", "len": 0, "x": "", "pd": ""})
}

fn panic_msg(p: Box<dyn std::any::Any + Send>) -> String {
    if let Some(s) = p.downcast_ref::<&str>() {
        s.to_string()
    } else if let Some(s) = p.downcast_ref::<String>() {
        s.clone()
    } else {
        "panic".into()
    }
}

struct OpTask {
    fut: Option<Pin<Box<dyn Future<Output = OpOut>>>>,
    flag: Arc<Flag>,
    polled: bool,
    pub kind: String,
}

struct StTask {
    st: Option<DynStream>,
    flag: Arc<Flag>,
}

#[derive(Clone, Debug, PartialEq, Eq, PartialOrd, Ord)]
pub enum Task {
    Ctx,
    Op(usize),
    St(usize),
}

/// What the broker side has seen on the wire (used to address acknowledgements symbolically).
#[derive(Default)]
pub struct WireView {
    pub op_id: BTreeMap<usize, u16>,
    pub op_sid: BTreeMap<usize, u32>,
    pub packets: Vec<Pk>,
    pub pings: usize,
    pub n_written: usize,
    pub acked: usize,
    pub raw: Vec<Vec<u8>>,
}

pub struct Sim {
    pub pipe: Pipe,
    ctx_fut: Option<Pin<Box<dyn Future<Output = ()>>>>,
    pub ctx_flag: Arc<Flag>,
    cmds: Arc<Mutex<VecDeque<Cmd>>>,
    results: Arc<Mutex<Vec<Value>>>,
    pub handles: Vec<Option<ContextHandle>>,
    pub recycled: Recycled,
    ops: BTreeMap<usize, OpTask>,
    streams: BTreeMap<usize, StTask>,
    pub trace: Vec<String>,
    pub wire: WireView,
    pub log_io: bool,
    pub quiet: bool, // suppress trace lines (handshake folded into reset)
    pub ctx_returned: bool,
    pub ctx_panicked: bool,
    pub panics: Vec<String>,
    pub op_results: BTreeMap<usize, Value>,
    pub ctx_results: Vec<Value>,
    pub items: BTreeMap<usize, Vec<Value>>,
    pub step_no: u64,
    pub sched_seed: u64,
    pub full_acc: bool,
}

pub fn install_quiet_panic_hook() {
    std::panic::set_hook(Box::new(|_| {}));
}

impl Sim {
    pub fn new() -> Sim {
        let (ctx, handle): (CtxT, ContextHandle) = Context::new();
        let cmds: Arc<Mutex<VecDeque<Cmd>>> = Arc::new(Mutex::new(VecDeque::new()));
        let results: Arc<Mutex<Vec<Value>>> = Arc::new(Mutex::new(vec![]));
        let pipe = Pipe::new();
        let c2 = cmds.clone();
        let r2 = results.clone();
        let fut = Box::pin(async move {
            let mut ctx = ctx;
            loop {
                match NextCmd(c2.clone()).await {
                    Cmd::SetUp(p) => {
                        ctx.set_up((Reader(p.clone()), Writer(p)));
                    }
                    Cmd::Connect(spec) => {
                        let o = ConnectOwned::from_json(&spec);
                        let r = ctx.connect(o.opts()).await;
                        r2.lock().unwrap().push(sum_first_response(&r));
                    }
                    Cmd::Authorize(spec) => {
                        let o = AuthOwned::from_json(&spec);
                        let r = match o.opts() {
                            Some(opts) => ctx.authorize(opts).await,
                            None => continue,
                        };
                        r2.lock().unwrap().push(sum_first_response(&r));
                    }
                    Cmd::Run => {
                        let r = ctx.run().await;
                        r2.lock().unwrap().push(match r {
                            Ok(()) => json!({"r": "ret", "kind": "Ok", "rc": 0, "x": ""}),
                            Err(e) => {
                                let mut v = sum_err(&e);
                                v["r"] = json!("ret");
                                v["acc"] = err_accessors(&e);
                                v
                            }
                        });
                    }
                    Cmd::MarkDisc(secs) => {
                        ctx.verif_mark_disconnected(secs);
                    }
                }
            }
        });
        let mut s = Sim {
            pipe: pipe.clone(),
            ctx_fut: Some(fut),
            ctx_flag: Flag::new(false),
            cmds,
            results,
            handles: vec![Some(handle)],
            recycled: Arc::new(Mutex::new(std::collections::HashMap::new())),
            ops: BTreeMap::new(),
            streams: BTreeMap::new(),
            trace: vec![],
            wire: WireView::default(),
            log_io: false,
            quiet: false,
            ctx_returned: false,
            ctx_panicked: false,
            panics: vec![],
            op_results: BTreeMap::new(),
            ctx_results: vec![],
            items: BTreeMap::new(),
            step_no: 0,
            sched_seed: 0,
            full_acc: false,
        };
        s.command(Cmd::SetUp(pipe));
        s
    }

    pub fn emit(&mut self, v: Value) {
        if !self.quiet {
            self.trace.push(v.to_string());
        }
    }

    pub fn command(&mut self, c: Cmd) {
        self.cmds.lock().unwrap().push_back(c);
        self.ctx_flag.set();
    }

    pub fn new_pipe(&mut self) -> Pipe {
        let p = Pipe::new();
        p.0.lock().unwrap().log_io = self.log_io;
        self.pipe = p.clone();
        self.command(Cmd::SetUp(p.clone()));
        p
    }

    pub fn ctx_alive(&self) -> bool {
        self.ctx_fut.is_some()
    }

    // -------------------------------------------------------------------------------------
    // context task

    /// One poll of the context task. Returns the result record(s) produced during it.
    pub fn poll_ctx(&mut self) -> Vec<Value> {
        if self.ctx_fut.is_none() {
            return vec![];
        }
        let was = self.ctx_flag.is();
        self.ctx_flag = Flag::new(false); // a waker of its own for every poll (see poll_op)
        self.emit(json!({"e": "ctxb", "woken": was as u8}));
        let waker = Waker::from(self.ctx_flag.clone());
        let mut cx = TaskCx::from_waker(&waker);
        let fut = self.ctx_fut.as_mut().unwrap();
        let r = timed(|| catch_unwind(AssertUnwindSafe(|| fut.as_mut().poll(&mut cx))));
        self.flush_io();
        let mut produced: Vec<Value> = std::mem::take(&mut *self.results.lock().unwrap());
        let unread = self.pipe.unread();
        let rdw = self.pipe.has_rd_waker() as u8;
        let wrw = self.pipe.has_wr_waker() as u8;
        match r {
            Ok(_) => {
                if produced.is_empty() {
                    self.emit(json!({"e": "ctxe", "res": res_rec("pending", "", 0, ""), "unread": unread, "rdw": rdw, "wrw": wrw}));
                } else {
                    for p in &produced {
                        self.emit(json!({"e": "ctxe", "res": p, "unread": unread, "rdw": rdw, "wrw": wrw}));
                    }
                    self.ctx_returned = true;
                }
            }
            Err(p) => {
                let m = panic_msg(p);
                self.panics.push(format!("ctx: {}", m));
                self.ctx_fut = None; // a panicked future must not be polled again
                self.ctx_panicked = true;
                let mut rr = res_rec("panic", "", 0, "");
                rr["msg"] = json!(m);
                self.emit(json!({"e": "ctxe", "res": rr, "unread": unread, "rdw": rdw, "wrw": wrw}));
                produced.push(res_rec("panic", "", 0, ""));
            }
        }
        self.ctx_results.extend(produced.iter().cloned());
        produced
    }

    /// Moves transport events into the trace and into the wire view.
    pub fn flush_io(&mut self) {
        for ev in self.pipe.drain_log() {
            match ev {
                IoEv::WrPacket(b) => {
                    self.wire.n_written += 1;
                    self.wire.raw.push(b.clone());
                    match mqtt::decode(&b) {
                        Ok(pk) => {
                            self.note_wire(&pk);
                            let mut a = pk.abs();
                            if self.log_io {
                                a["hex"] = json!(hex(&b));
                            }
                            self.emit(json!({"e": "wr", "pk": a}));
                            self.wire.packets.push(pk);
                        }
                        Err(e) => {
                            let mut a = empty_abs();
                            a["t"] = json!("MALFORMED");
                            a["len"] = json!(b.len());
                            a["x"] = json!(e);
                            a["tag"] = json!(hex(&b[..b.len().min(64)]));
                            self.emit(json!({"e": "wr", "pk": a}));
                        }
                    }
                }
                IoEv::AutoBlock => {
                    self.emit(json!({"e": "wrmode", "m": "block", "k": 0}));
                }
                IoEv::WrGarbage(b, e) => {
                    let mut a = empty_abs();
                    a["t"] = json!("MALFORMED");
                    a["len"] = json!(b.len());
                    a["x"] = json!(e);
                    self.emit(json!({"e": "wr", "pk": a}));
                }
                IoEv::Rd(n) => {
                    if self.log_io {
                        self.emit(json!({"e": "rd", "n": n, "k": "data"}));
                    }
                }
                IoEv::RdPending => {
                    if self.log_io {
                        self.emit(json!({"e": "rd", "n": 0, "k": "pending"}));
                    }
                }
                IoEv::RdEof => {
                    if self.log_io {
                        self.emit(json!({"e": "rd", "n": 0, "k": "eof"}));
                    }
                }
                IoEv::RdErr => {
                    if self.log_io {
                        self.emit(json!({"e": "rd", "n": 0, "k": "err"}));
                    }
                }
                IoEv::RdEmptyBuf => {
                    self.emit(json!({"e": "rd", "n": 0, "k": "emptybuf"}));
                }
                IoEv::WrPart(n) => {
                    if self.log_io {
                        self.emit(json!({"e": "wrpart", "n": n}));
                    }
                }
                IoEv::WrPending => {
                    if self.log_io {
                        self.emit(json!({"e": "wrpending"}));
                    }
                }
                IoEv::WrErr => {
                    if self.log_io {
                        self.emit(json!({"e": "wrerr"}));
                    }
                }
            }
        }
    }

    fn note_wire(&mut self, pk: &Pk) {
        let op_of = |s: &[u8]| -> Option<usize> {
            let t = String::from_utf8_lossy(s);
            let mut it = t.split('/');
            it.next()?;
            it.next()?.parse::<usize>().ok()
        };
        match pk.t {
            mqtt::PUBLISH => {
                if let (Some(k), Some(id)) = (op_of(&pk.topic), pk.id) {
                    self.wire.op_id.entry(k).or_insert(id);
                }
            }
            mqtt::SUBSCRIBE | mqtt::UNSUBSCRIBE => {
                if let Some((f, _)) = pk.filters.first() {
                    if let (Some(k), Some(id)) = (op_of(f), pk.id) {
                        self.wire.op_id.entry(k).or_insert(id);
                        if let Some(sid) = pk.sids().first() {
                            self.wire.op_sid.entry(k).or_insert(*sid);
                        }
                    }
                }
            }
            mqtt::PINGREQ => self.wire.pings += 1,
            _ => {}
        }
    }

    pub fn drop_ctx(&mut self) {
        self.ctx_fut = None;
        self.emit(json!({"e": "drop", "task": "ctx", "k": 0}));
    }

    // -------------------------------------------------------------------------------------
    // handles and operations

    pub fn clone_handle(&mut self, from: usize) -> Option<usize> {
        let base = self.handles.get(from)?.as_ref()?;
        // (clone the handle object that has already done work on this slot, if any: clones inherit whatever a handle carries)
        let h = match self.recycled.lock().unwrap().get(&from) {
            Some(used) => used.clone(),
            None => base.clone(),
        };
        self.handles.push(Some(h));
        let i = self.handles.len() - 1;
        self.emit(json!({"e": "clone", "h": i, "from": from}));
        Some(i)
    }

    pub fn drop_handle(&mut self, h: usize) {
        if let Some(slot) = self.handles.get_mut(h) {
            if slot.take().is_some() {
                self.recycled.lock().unwrap().remove(&h);
                self.emit(json!({"e": "drop", "task": "h", "k": h}));
            }
        }
    }

    /// Creates the future of one handle operation (not polled yet).
    pub fn call(&mut self, k: usize, h: usize, spec: &Value) -> bool {
        let handle = match self.handles.get(h).and_then(|x| x.as_ref()) {
            Some(x) => match self.recycled.lock().unwrap().remove(&h) {
                Some(used) => used,
                None => x.clone(),
            },
            None => return false,
        };
        let kind = spec["kind"].as_str().unwrap_or("").to_string();
        let fut = make_op(handle, spec.clone(), h, self.recycled.clone());
        self.ops.insert(k, OpTask { fut: Some(fut), flag: Flag::new(true), polled: false, kind: kind.clone() });
        let mut line = call_line(spec);
        line["e"] = json!("call");
        line["op"] = json!(k);
        line["h"] = json!(h);
        self.emit(line);
        true
    }

    /// Forgets everything about a finished operation (used by untraced warm-up operations).
    pub fn forget_op(&mut self, k: usize) {
        self.ops.remove(&k);
        self.op_results.remove(&k);
        self.wire.op_id.remove(&k);
        self.wire.op_sid.remove(&k);
    }

    pub fn op_live(&self, k: usize) -> bool {
        self.ops.get(&k).map(|o| o.fut.is_some()).unwrap_or(false)
    }

    pub fn poll_op(&mut self, k: usize) -> Option<Value> {
        let t = self.ops.get_mut(&k)?;
        let fut = t.fut.as_mut()?;
        let was = t.flag.is();
        // every poll hands the future a waker of its own (a future may be polled from another task, or under a combinator that
        // wraps the waker, at any time): only the waker of the most recent poll counts, a wake-up sent to an older one is lost
        t.flag = Flag::new(false);
        let first = !t.polled;
        t.polled = true;
        let waker = Waker::from(t.flag.clone());
        let mut cx = TaskCx::from_waker(&waker);
        let r = timed(|| catch_unwind(AssertUnwindSafe(|| fut.as_mut().poll(&mut cx))));
        {
            // a handle handed back for a slot whose handle has been dropped meanwhile is dropped as well
            let mut rc = self.recycled.lock().unwrap();
            let dead: Vec<usize> = rc.keys().cloned().filter(|h| self.handles.get(*h).map(|x| x.is_none()).unwrap_or(true)).collect();
            for h in dead {
                rc.remove(&h);
            }
        }
        let res = match r {
            Ok(Poll::Pending) => res_rec("pending", "", 0, ""),
            Ok(Poll::Ready(OpOut::Done(v))) => {
                t.fut = None;
                v
            }
            Ok(Poll::Ready(OpOut::Sub(v, st))) => {
                t.fut = None;
                self.streams.insert(k, StTask { st: Some(st), flag: Flag::new(true) });
                v
            }
            Err(p) => {
                t.fut = None;
                let m = panic_msg(p);
                self.panics.push(format!("op {}: {}", k, m));
                let mut rr = res_rec("panic", "", 0, "");
                rr["msg"] = json!(m);
                rr
            }
        };
        if res["r"] != "pending" {
            self.op_results.insert(k, res.clone());
        }
        self.emit(json!({"e": "pollop", "k": k, "first": first as u8, "woken": was as u8, "res": res}));
        Some(res)
    }

    pub fn drop_op(&mut self, k: usize) {
        if let Some(t) = self.ops.get_mut(&k) {
            if t.fut.take().is_some() {
                self.emit(json!({"e": "drop", "task": "op", "k": k}));
            }
        }
    }

    pub fn stream_live(&self, k: usize) -> bool {
        self.streams.get(&k).map(|s| s.st.is_some()).unwrap_or(false)
    }

    pub fn poll_stream(&mut self, k: usize) -> Option<Value> {
        let t = self.streams.get_mut(&k)?;
        let st = t.st.as_mut()?;
        let was = t.flag.is();
        t.flag = Flag::new(false);
        let waker = Waker::from(t.flag.clone());
        let mut cx = TaskCx::from_waker(&waker);
        let r = timed(|| catch_unwind(AssertUnwindSafe(|| st.as_mut().poll_next(&mut cx))));
        let (rr, pk) = match r {
            Ok(Poll::Pending) => ("pending", empty_abs()),
            Ok(Poll::Ready(Some(d))) => {
                t.flag.set(); // a stream that yielded may have more: it stays runnable
                let mut v = sum_publish_data(&d);
                if self.full_acc {
                    v["acc"] = publish_accessors(&d);
                }
                ("item", v)
            }
            Ok(Poll::Ready(None)) => {
                t.st = None;
                ("end", empty_abs())
            }
            Err(p) => {
                t.st = None;
                self.panics.push(format!("stream {}: {}", k, panic_msg(p)));
                ("panic", empty_abs())
            }
        };
        if rr == "item" {
            self.items.entry(k).or_default().push(pk.clone());
        }
        let v = json!({"e": "pollst", "k": k, "woken": was as u8, "res": {"r": rr, "pk": pk}});
        self.emit(v.clone());
        Some(v["res"].clone())
    }

    pub fn drop_stream(&mut self, k: usize) {
        if let Some(t) = self.streams.get_mut(&k) {
            if t.st.take().is_some() {
                self.emit(json!({"e": "drop", "task": "st", "k": k}));
            }
        }
    }

    // -------------------------------------------------------------------------------------
    // transport

    /// Makes `bytes` readable, split into the given chunk sizes (the rest as one last chunk).
    /// `pks` are the abstract records of the packets that are complete once this data is in.
    pub fn inject_bytes(&mut self, bytes: &[u8], split: &[usize], pks: Vec<Value>) {
        let mut off = 0;
        for n in split {
            if off >= bytes.len() {
                break;
            }
            let e = (off + *n).min(bytes.len());
            if e > off {
                self.pipe.inject(bytes[off..e].to_vec());
            }
            off = e;
        }
        if off < bytes.len() {
            self.pipe.inject(bytes[off..].to_vec());
        }
        self.emit(json!({"e": "inject", "n": bytes.len(), "pks": pks}));
    }

    pub fn inject_packet(&mut self, pk: &Pk, form: u8) {
        let b = mqtt::encode(pk, form);
        let a = match mqtt::decode(&b) {
            Ok(d) => d.abs(),
            Err(_) => {
                let mut a = empty_abs();
                a["t"] = json!("GARBAGE");
                a
            }
        };
        self.inject_bytes(&b, &[], vec![a]);
    }

    pub fn eof(&mut self) {
        self.pipe.end(End::Eof);
        self.emit(json!({"e": "eof"}));
    }

    pub fn rderr(&mut self) {
        self.pipe.end(End::Err);
        self.emit(json!({"e": "rderr"}));
    }

    pub fn wr_mode(&mut self, m: WrMode) {
        self.pipe.set_wr_mode(m);
        let (name, k) = match m {
            WrMode::Accept => ("accept", 0),
            WrMode::Budget(_) => ("accept", 0),
            WrMode::Max(k) => ("max", k),
            WrMode::Block => ("block", 0),
            WrMode::Err => ("err", 0),
            WrMode::Zero => ("zero", 0),
        };
        self.emit(json!({"e": "wrmode", "m": name, "k": k}));
    }

    // -------------------------------------------------------------------------------------
    // executor view

    pub fn woken(&self) -> Vec<Task> {
        let mut v = vec![];
        if self.ctx_fut.is_some() && self.ctx_flag.is() {
            v.push(Task::Ctx);
        }
        for (k, t) in &self.ops {
            if t.fut.is_some() && t.flag.is() {
                v.push(Task::Op(*k));
            }
        }
        for (k, t) in &self.streams {
            if t.st.is_some() && t.flag.is() {
                v.push(Task::St(*k));
            }
        }
        v
    }

    pub fn live(&self) -> Vec<Task> {
        let mut v = vec![];
        if self.ctx_fut.is_some() {
            v.push(Task::Ctx);
        }
        for (k, t) in &self.ops {
            if t.fut.is_some() {
                v.push(Task::Op(*k));
            }
        }
        for (k, t) in &self.streams {
            if t.st.is_some() {
                v.push(Task::St(*k));
            }
        }
        v
    }

    pub fn poll_task(&mut self, t: &Task) {
        match t {
            Task::Ctx => {
                self.poll_ctx();
            }
            Task::Op(k) => {
                self.poll_op(*k);
            }
            Task::St(k) => {
                self.poll_stream(*k);
            }
        }
    }

    pub fn is_woken(&self, t: &Task) -> bool {
        match t {
            Task::Ctx => self.ctx_flag.is(),
            Task::Op(k) => self.ops.get(k).map(|o| o.flag.is()).unwrap_or(false),
            Task::St(k) => self.streams.get(k).map(|o| o.flag.is()).unwrap_or(false),
        }
    }

    pub fn live_ops(&self) -> Vec<usize> {
        self.ops.iter().filter(|(_, t)| t.fut.is_some()).map(|(k, _)| *k).collect()
    }

    pub fn live_streams(&self) -> Vec<usize> {
        self.streams.iter().filter(|(_, t)| t.st.is_some()).map(|(k, _)| *k).collect()
    }

    pub fn op_kind(&self, k: usize) -> String {
        self.ops.get(&k).map(|o| o.kind.clone()).unwrap_or_default()
    }
}

pub fn hex(b: &[u8]) -> String {
    b.iter().map(|c| format!("{:02x}", c)).collect()
}

fn sum_first_response(r: &Result<Either<poster::ConnectRsp, poster::AuthRsp>, MqttError>) -> Value {
    match r {
        Ok(Either::Left(c)) => {
            let mut v = json!({"r": "ret", "kind": "ConnectRsp", "rc": c.reason() as u8, "x": ""});
            v["acc"] = connack_accessors(c);
            v
        }
        Ok(Either::Right(a)) => {
            let mut v = json!({"r": "ret", "kind": "AuthRsp", "rc": a.reason() as u8, "x": ""});
            v["acc"] = auth_accessors(a);
            v
        }
        Err(e) => {
            let mut v = sum_err(e);
            v["r"] = json!("ret");
            v["acc"] = err_accessors(e);
            v
        }
    }
}

pub fn publish_accessors(d: &PublishData) -> Value {
    json!({
        "dup": d.dup(), "retain": d.retain(), "qos": d.qos() as u8, "topic_name": d.topic_name(), "payload": hex(d.payload()),
        "payload_format_indicator": d.payload_format_indicator().map(|b| vec![b]).unwrap_or_default(),
        "topic_alias": d.topic_alias().map(|b| vec![b]).unwrap_or_default(),
        "message_expiry_interval": d.message_expiry_interval().map(|b| vec![b.as_secs()]).unwrap_or_default(),
        "correlation_data": opt_b(d.correlation_data()),
        "response_topic": opt_s(d.response_topic()),
        "content_type": opt_s(d.content_type()),
        "user_properties": ups_json(d.user_properties()),
    })
}

fn opt_s(o: Option<&str>) -> Value {
    match o {
        Some(s) => json!([s]),
        None => json!([]),
    }
}

fn opt_b(o: Option<&[u8]>) -> Value {
    match o {
        Some(s) => json!([hex(s)]),
        None => json!([]),
    }
}

pub fn ups_json(up: &poster::UserProperties) -> Value {
    Value::Array(up.iter().map(|(k, v)| json!([k, v])).collect())
}

pub fn connack_accessors(c: &poster::ConnectRsp) -> Value {
    json!({
        "session_present": c.session_present(),
        "reason": c.reason() as u8,
        "wildcard_subscription_available": c.wildcard_subscription_available(),
        "subscription_identifier_available": c.subscription_identifier_available(),
        "shared_subscription_available": c.shared_subscription_available(),
        "maximum_qos": c.maximum_qos() as u8,
        "retain_available": c.retain_available(),
        "server_keep_alive": c.server_keep_alive().map(|d| vec![d.as_secs()]).unwrap_or_default(),
        "receive_maximum": c.receive_maximum(),
        "topic_alias_maximum": c.topic_alias_maximum(),
        "session_expiry_interval": c.session_expiry_interval().map(|d| vec![d.as_secs()]).unwrap_or_default(),
        "maximum_packet_size": c.maximum_packet_size().map(|d| vec![d]).unwrap_or_default(),
        "assigned_client_identifier": opt_s(c.assigned_client_identifier()),
        "reason_string": opt_s(c.reason_string()),
        "response_information": opt_s(c.response_information()),
        "server_reference": opt_s(c.server_reference()),
        "authentication_method": opt_s(c.authentication_method()),
        "authentication_data": opt_b(c.authentication_data()),
        "user_properties": ups_json(c.user_properties()),
    })
}

pub fn auth_accessors(a: &poster::AuthRsp) -> Value {
    json!({
        "reason": a.reason() as u8,
        "reason_string": opt_s(a.reason_string()),
        "authentication_method": opt_s(a.authentication_method()),
        "authentication_data": opt_b(a.authentication_data()),
        "user_properties": ups_json(a.user_properties()),
    })
}

pub fn err_accessors(e: &MqttError) -> Value {
    match e {
        MqttError::ConnectError(c) => json!({"kind": "ConnectError", "reason": c.reason() as u8,
            "reason_string": opt_s(c.reason_string()), "server_reference": opt_s(c.server_reference()),
            "user_properties": ups_json(c.user_properties())}),
        MqttError::AuthError(c) => json!({"kind": "AuthError", "reason": c.reason() as u8,
            "reason_string": opt_s(c.reason_string()), "user_properties": ups_json(c.user_properties())}),
        MqttError::PubackError(c) => json!({"kind": "PubackError", "reason": c.reason() as u8,
            "reason_string": opt_s(c.reason_string()), "user_properties": ups_json(c.user_properties())}),
        MqttError::PubrecError(c) => json!({"kind": "PubrecError", "reason": c.reason() as u8,
            "reason_string": opt_s(c.reason_string()), "user_properties": ups_json(c.user_properties())}),
        MqttError::PubcompError(c) => json!({"kind": "PubcompError", "reason": c.reason() as u8,
            "reason_string": opt_s(c.reason_string()), "user_properties": ups_json(c.user_properties())}),
        MqttError::Disconnected(d) => json!({"kind": "Disconnected", "reason": d.reason() as u8,
            "session_expiry_interval": d.session_expiry_interval().as_secs(),
            "reason_string": opt_s(d.reason_string()), "server_reference": opt_s(d.server_reference()),
            "user_properties": ups_json(d.user_properties())}),
        other => {
            let s = sum_err(other);
            json!({"kind": s["kind"]})
        }
    }
}

/// Builds the boxed future of one handle operation. Options are built inside the future, on
/// its first poll, exactly as `handle.publish(opts).await` does in user code.
/// Handles that have finished an operation, by handle slot: the next operation started on that slot uses the very same
/// handle object again (a handle may carry state of its own from one operation to the next), not a fresh clone.
pub type Recycled = Arc<Mutex<std::collections::HashMap<usize, ContextHandle>>>;

fn make_op(handle: ContextHandle, spec: Value, slot: usize, recycled: Recycled) -> Pin<Box<dyn Future<Output = OpOut>>> {
    Box::pin(async move {
        let mut h = handle;
        let out = op_body(&mut h, spec).await;
        recycled.lock().unwrap().insert(slot, h);
        out
    })
}

async fn op_body(h: &mut ContextHandle, spec: Value) -> OpOut {
    {
        let kind = spec["kind"].as_str().unwrap_or("").to_string();
        let full = spec["acc"].as_bool().unwrap_or(false);
        let fin = |r: Result<(), MqttError>| -> OpOut {
            match r {
                Ok(()) => OpOut::Done(res_rec("ok", "", 0, "")),
                Err(e) => {
                    let mut v = sum_err(&e);
                    if full {
                        v["acc"] = err_accessors(&e);
                    }
                    OpOut::Done(v)
                }
            }
        };
        match kind.as_str() {
            "pub" => {
                let o = PubOwned::from_json(&spec);
                let r = h.publish(o.opts()).await;
                fin(r)
            }
            "ping" => {
                let r = h.ping().await;
                fin(r)
            }
            "disc" => {
                let o = DiscOwned::from_json(&spec);
                let r = h.disconnect(o.opts()).await;
                fin(r)
            }
            "unsub" => {
                let o = UnsubOwned::from_json(&spec);
                match h.unsubscribe(o.opts()).await {
                    Ok(rsp) => {
                        let rcs: Vec<u8> = rsp.payload().iter().map(|r| *r as u8).collect();
                        let x = format!(
                            "{}|{}",
                            rcs.iter().map(|r| format!("{:02x}", r)).collect::<Vec<_>>().join(""),
                            mqtt::content_digest(&rs_props(rsp.reason_string(), rsp.user_properties()), b"", b"")
                        );
                        let mut v = res_rec("ok", "", 0, &x);
                        if full {
                            v["acc"] = json!({"payload": rcs, "reason_string": opt_s(rsp.reason_string()),
                                "user_properties": ups_json(rsp.user_properties())});
                        }
                        OpOut::Done(v)
                    }
                    Err(e) => fin(Err(e)),
                }
            }
            "sub" => {
                let o = SubOwned::from_json(&spec);
                match h.subscribe(o.opts()).await {
                    Ok(rsp) => {
                        let rcs: Vec<u8> = rsp.payload().iter().map(|r| *r as u8).collect();
                        let x = format!(
                            "{}|{}",
                            rcs.iter().map(|r| format!("{:02x}", r)).collect::<Vec<_>>().join(""),
                            mqtt::content_digest(&rs_props(rsp.reason_string(), rsp.user_properties()), b"", b"")
                        );
                        let mut v = res_rec("ok", "", 0, &x);
                        if full {
                            v["acc"] = json!({"payload": rcs, "reason_string": opt_s(rsp.reason_string()),
                                "user_properties": ups_json(rsp.user_properties())});
                        }
                        OpOut::Sub(v, Box::pin(rsp.stream()))
                    }
                    Err(e) => fin(Err(e)),
                }
            }
            _ => OpOut::Done(res_rec("err", "BadSpec", 0, "")),
        }
    }
}
