//! Independent MQTT 5 codec, written from the OASIS standard (not from poster's sources).
//! Used to frame/decode what the client writes, to build what the mock broker injects,
//! and to expand the layouts that the TLA+ wire specification prescribes.

use serde_json::{json, Value};

pub const CONNECT: u8 = 1;
pub const CONNACK: u8 = 2;
pub const PUBLISH: u8 = 3;
pub const PUBACK: u8 = 4;
pub const PUBREC: u8 = 5;
pub const PUBREL: u8 = 6;
pub const PUBCOMP: u8 = 7;
pub const SUBSCRIBE: u8 = 8;
pub const SUBACK: u8 = 9;
pub const UNSUBSCRIBE: u8 = 10;
pub const UNSUBACK: u8 = 11;
pub const PINGREQ: u8 = 12;
pub const PINGRESP: u8 = 13;
pub const DISCONNECT: u8 = 14;
pub const AUTH: u8 = 15;

pub fn tname(t: u8) -> &'static str {
    match t {
        1 => "CONNECT",
        2 => "CONNACK",
        3 => "PUBLISH",
        4 => "PUBACK",
        5 => "PUBREC",
        6 => "PUBREL",
        7 => "PUBCOMP",
        8 => "SUBSCRIBE",
        9 => "SUBACK",
        10 => "UNSUBSCRIBE",
        11 => "UNSUBACK",
        12 => "PINGREQ",
        13 => "PINGRESP",
        14 => "DISCONNECT",
        15 => "AUTH",
        _ => "RESERVED",
    }
}

pub fn tcode(name: &str) -> u8 {
    for t in 1..=15u8 {
        if tname(t) == name {
            return t;
        }
    }
    0
}

#[derive(Clone, Debug, PartialEq, Eq)]
pub enum PV {
    Byte(u8),
    U16(u16),
    U32(u32),
    Vbi(u32),
    Str(Vec<u8>),
    Bin(Vec<u8>),
    Pair(Vec<u8>, Vec<u8>),
}

#[derive(Clone, Debug, PartialEq, Eq)]
pub struct Prop {
    pub id: u8,
    pub v: PV,
}

/// Property identifier -> kind: b=byte, w=u16, d=u32, v=vbi, s=utf8, x=binary, p=pair
pub fn prop_kind(id: u8) -> Option<char> {
    Some(match id {
        0x01 => 'b', // payload format indicator
        0x02 => 'd', // message expiry interval
        0x03 => 's', // content type
        0x08 => 's', // response topic
        0x09 => 'x', // correlation data
        0x0b => 'v', // subscription identifier
        0x11 => 'd', // session expiry interval
        0x12 => 's', // assigned client identifier
        0x13 => 'w', // server keep alive
        0x15 => 's', // authentication method
        0x16 => 'x', // authentication data
        0x17 => 'b', // request problem information
        0x18 => 'd', // will delay interval
        0x19 => 'b', // request response information
        0x1a => 's', // response information
        0x1c => 's', // server reference
        0x1f => 's', // reason string
        0x21 => 'w', // receive maximum
        0x22 => 'w', // topic alias maximum
        0x23 => 'w', // topic alias
        0x24 => 'b', // maximum qos
        0x25 => 'b', // retain available
        0x26 => 'p', // user property
        0x27 => 'd', // maximum packet size
        0x28 => 'b', // wildcard subscription available
        0x29 => 'b', // subscription identifier available
        0x2a => 'b', // shared subscription available
        _ => return None,
    })
}

#[derive(Clone, Debug, Default, PartialEq, Eq)]
pub struct Will {
    pub qos: u8,
    pub retain: bool,
    pub props: Vec<Prop>,
    pub topic: Vec<u8>,
    pub payload: Vec<u8>,
}

#[derive(Clone, Debug, Default, PartialEq, Eq)]
pub struct Pk {
    pub t: u8,
    pub flags: u8,
    pub id: Option<u16>,
    pub rc: Option<u8>,
    pub props: Vec<Prop>,
    pub has_props: bool, // property length field present on the wire
    pub topic: Vec<u8>,
    pub payload: Vec<u8>,
    // CONNECT
    pub proto_name: Vec<u8>,
    pub proto_level: u8,
    pub connect_flags: u8,
    pub keep_alive: u16,
    pub client_id: Vec<u8>,
    pub will: Option<Will>,
    pub username: Option<Vec<u8>>,
    pub password: Option<Vec<u8>>,
    // CONNACK
    pub session_present: bool,
    // SUBSCRIBE / UNSUBSCRIBE
    pub filters: Vec<(Vec<u8>, u8)>,
    // SUBACK / UNSUBACK
    pub rcs: Vec<u8>,
    // bookkeeping
    pub total_len: usize,
    pub rl_bytes: usize,
}

impl Pk {
    pub fn new(t: u8) -> Pk {
        Pk { t, ..Default::default() }
    }
    pub fn qos(&self) -> u8 {
        (self.flags >> 1) & 3
    }
    pub fn dup(&self) -> bool {
        self.flags & 8 != 0
    }
    pub fn retain(&self) -> bool {
        self.flags & 1 != 0
    }
    pub fn sids(&self) -> Vec<u32> {
        self.props
            .iter()
            .filter_map(|p| match (&p.id, &p.v) {
                (0x0b, PV::Vbi(v)) => Some(*v),
                _ => None,
            })
            .collect()
    }
}

// ---------------------------------------------------------------------------------------------
// primitives

pub fn vbi_encode(mut n: u32, out: &mut Vec<u8>) {
    loop {
        let mut b = (n % 128) as u8;
        n /= 128;
        if n > 0 {
            b |= 0x80;
        }
        out.push(b);
        if n == 0 {
            break;
        }
    }
}

pub fn vbi_len(n: u32) -> usize {
    if n < 128 {
        1
    } else if n < 16384 {
        2
    } else if n < 2097152 {
        3
    } else {
        4
    }
}

/// Returns (value, bytes used) or Err; Ok(None) when more bytes are needed.
pub fn vbi_decode(b: &[u8]) -> Result<Option<(u32, usize)>, String> {
    let mut v: u32 = 0;
    let mut mul: u32 = 1;
    for i in 0..4 {
        if i >= b.len() {
            return Ok(None);
        }
        v += (b[i] & 0x7f) as u32 * mul;
        if b[i] & 0x80 == 0 {
            return Ok(Some((v, i + 1)));
        }
        mul *= 128;
    }
    Err("variable byte integer longer than 4 bytes".into())
}

struct Rd<'a> {
    b: &'a [u8],
    p: usize,
}

impl<'a> Rd<'a> {
    fn rem(&self) -> usize {
        self.b.len() - self.p
    }
    fn u8(&mut self) -> Result<u8, String> {
        if self.rem() < 1 {
            return Err("truncated u8".into());
        }
        self.p += 1;
        Ok(self.b[self.p - 1])
    }
    fn u16(&mut self) -> Result<u16, String> {
        if self.rem() < 2 {
            return Err("truncated u16".into());
        }
        self.p += 2;
        Ok(u16::from_be_bytes([self.b[self.p - 2], self.b[self.p - 1]]))
    }
    fn u32(&mut self) -> Result<u32, String> {
        if self.rem() < 4 {
            return Err("truncated u32".into());
        }
        self.p += 4;
        Ok(u32::from_be_bytes([
            self.b[self.p - 4],
            self.b[self.p - 3],
            self.b[self.p - 2],
            self.b[self.p - 1],
        ]))
    }
    fn vbi(&mut self) -> Result<u32, String> {
        match vbi_decode(&self.b[self.p..])? {
            Some((v, n)) => {
                self.p += n;
                Ok(v)
            }
            None => Err("truncated vbi".into()),
        }
    }
    fn bin(&mut self) -> Result<Vec<u8>, String> {
        let n = self.u16()? as usize;
        if self.rem() < n {
            return Err(format!("truncated binary: need {} have {}", n, self.rem()));
        }
        self.p += n;
        Ok(self.b[self.p - n..self.p].to_vec())
    }
    fn str(&mut self) -> Result<Vec<u8>, String> {
        let v = self.bin()?;
        if std::str::from_utf8(&v).is_err() {
            return Err("invalid utf-8".into());
        }
        Ok(v)
    }
    fn take(&mut self, n: usize) -> Result<&'a [u8], String> {
        if self.rem() < n {
            return Err("truncated".into());
        }
        self.p += n;
        Ok(&self.b[self.p - n..self.p])
    }
}

fn decode_props(r: &mut Rd) -> Result<Vec<Prop>, String> {
    let n = r.vbi()? as usize;
    let body = r.take(n).map_err(|_| "property length exceeds packet".to_string())?;
    let mut pr = Rd { b: body, p: 0 };
    let mut out = vec![];
    while pr.rem() > 0 {
        let id = pr.vbi()?;
        if id > 255 {
            return Err("property id > 255".into());
        }
        let id = id as u8;
        let v = match prop_kind(id).ok_or_else(|| format!("unknown property {:#x}", id))? {
            'b' => PV::Byte(pr.u8()?),
            'w' => PV::U16(pr.u16()?),
            'd' => PV::U32(pr.u32()?),
            'v' => PV::Vbi(pr.vbi()?),
            's' => PV::Str(pr.str()?),
            'x' => PV::Bin(pr.bin()?),
            'p' => {
                let k = pr.str()?;
                let v = pr.str()?;
                PV::Pair(k, v)
            }
            _ => unreachable!(),
        };
        out.push(Prop { id, v });
    }
    Ok(out)
}

pub fn encode_props_body(props: &[Prop], out: &mut Vec<u8>) {
    for p in props {
        out.push(p.id);
        match &p.v {
            PV::Byte(b) => out.push(*b),
            PV::U16(w) => out.extend_from_slice(&w.to_be_bytes()),
            PV::U32(d) => out.extend_from_slice(&d.to_be_bytes()),
            PV::Vbi(v) => vbi_encode(*v, out),
            PV::Str(s) | PV::Bin(s) => {
                out.extend_from_slice(&(s.len() as u16).to_be_bytes());
                out.extend_from_slice(s);
            }
            PV::Pair(k, v) => {
                out.extend_from_slice(&(k.len() as u16).to_be_bytes());
                out.extend_from_slice(k);
                out.extend_from_slice(&(v.len() as u16).to_be_bytes());
                out.extend_from_slice(v);
            }
        }
    }
}

fn encode_props(props: &[Prop], out: &mut Vec<u8>) {
    let mut body = vec![];
    encode_props_body(props, &mut body);
    vbi_encode(body.len() as u32, out);
    out.extend_from_slice(&body);
}

fn put_bin(b: &[u8], out: &mut Vec<u8>) {
    out.extend_from_slice(&(b.len() as u16).to_be_bytes());
    out.extend_from_slice(b);
}

// ---------------------------------------------------------------------------------------------
// framing

/// If `buf` starts with a complete packet returns its total length.
pub fn frame_len(buf: &[u8]) -> Result<Option<usize>, String> {
    if buf.len() < 2 {
        return Ok(None);
    }
    match vbi_decode(&buf[1..])? {
        None => Ok(None),
        Some((rl, n)) => {
            let total = 1 + n + rl as usize;
            if buf.len() >= total {
                Ok(Some(total))
            } else {
                Ok(None)
            }
        }
    }
}

// ---------------------------------------------------------------------------------------------
// decoding (strict)

pub fn decode(b: &[u8]) -> Result<Pk, String> {
    if b.len() < 2 {
        return Err("packet shorter than 2 bytes".into());
    }
    let t = b[0] >> 4;
    let flags = b[0] & 0x0f;
    let (rl, n) = vbi_decode(&b[1..])?.ok_or("truncated remaining length")?;
    if 1 + n + rl as usize != b.len() {
        return Err(format!(
            "remaining length {} does not match {} bytes following",
            rl,
            b.len() - 1 - n
        ));
    }
    let mut pk = Pk::new(t);
    pk.flags = flags;
    pk.total_len = b.len();
    pk.rl_bytes = n;
    let mut r = Rd { b, p: 1 + n };
    let need_flags = |want: u8| -> Result<(), String> {
        if flags != want {
            Err(format!("{}: reserved flags {:#x}, expected {:#x}", tname(t), flags, want))
        } else {
            Ok(())
        }
    };
    match t {
        CONNECT => {
            need_flags(0)?;
            pk.proto_name = r.str()?;
            if pk.proto_name != b"MQTT" {
                return Err("protocol name".into());
            }
            pk.proto_level = r.u8()?;
            if pk.proto_level != 5 {
                return Err("protocol level".into());
            }
            pk.connect_flags = r.u8()?;
            let cf = pk.connect_flags;
            if cf & 1 != 0 {
                return Err("connect flags reserved bit".into());
            }
            pk.keep_alive = r.u16()?;
            pk.props = decode_props(&mut r)?;
            pk.has_props = true;
            pk.client_id = r.str()?;
            if cf & 0x04 != 0 {
                let mut w = Will { qos: (cf >> 3) & 3, retain: cf & 0x20 != 0, ..Default::default() };
                if w.qos == 3 {
                    return Err("will qos 3".into());
                }
                w.props = decode_props(&mut r)?;
                w.topic = r.str()?;
                w.payload = r.bin()?;
                pk.will = Some(w);
            } else if cf & 0x38 != 0 {
                return Err("will qos/retain set without will flag".into());
            }
            if cf & 0x80 != 0 {
                pk.username = Some(r.str()?);
            }
            if cf & 0x40 != 0 {
                pk.password = Some(r.bin()?);
            }
        }
        CONNACK => {
            need_flags(0)?;
            let ack = r.u8()?;
            if ack & 0xfe != 0 {
                return Err("connack flags".into());
            }
            pk.session_present = ack & 1 != 0;
            pk.rc = Some(r.u8()?);
            pk.props = decode_props(&mut r)?;
            pk.has_props = true;
        }
        PUBLISH => {
            if pk.qos() == 3 {
                return Err("publish qos 3".into());
            }
            pk.topic = r.str()?;
            if pk.qos() > 0 {
                let id = r.u16()?;
                if id == 0 {
                    return Err("publish packet identifier 0".into());
                }
                pk.id = Some(id);
            }
            pk.props = decode_props(&mut r)?;
            pk.has_props = true;
            pk.payload = r.take(r.rem())?.to_vec();
        }
        PUBACK | PUBREC | PUBREL | PUBCOMP => {
            need_flags(if t == PUBREL { 2 } else { 0 })?;
            let id = r.u16()?;
            if id == 0 {
                return Err("ack packet identifier 0".into());
            }
            pk.id = Some(id);
            if r.rem() > 0 {
                pk.rc = Some(r.u8()?);
                if r.rem() > 0 {
                    pk.props = decode_props(&mut r)?;
                    pk.has_props = true;
                }
            }
        }
        SUBSCRIBE | UNSUBSCRIBE => {
            need_flags(2)?;
            let id = r.u16()?;
            if id == 0 {
                return Err("packet identifier 0".into());
            }
            pk.id = Some(id);
            pk.props = decode_props(&mut r)?;
            pk.has_props = true;
            while r.rem() > 0 {
                let f = r.str()?;
                let o = if t == SUBSCRIBE { r.u8()? } else { 0 };
                if t == SUBSCRIBE && (o & 0xc0 != 0 || o & 3 == 3 || (o >> 4) & 3 == 3) {
                    return Err(format!("subscription options {:#x} malformed", o));
                }
                pk.filters.push((f, o));
            }
            if pk.filters.is_empty() {
                return Err("no topic filter".into());
            }
        }
        SUBACK | UNSUBACK => {
            need_flags(0)?;
            let id = r.u16()?;
            pk.id = Some(id);
            pk.props = decode_props(&mut r)?;
            pk.has_props = true;
            pk.rcs = r.take(r.rem())?.to_vec();
        }
        PINGREQ | PINGRESP => {
            need_flags(0)?;
        }
        DISCONNECT | AUTH => {
            need_flags(0)?;
            if r.rem() > 0 {
                pk.rc = Some(r.u8()?);
                if r.rem() > 0 {
                    pk.props = decode_props(&mut r)?;
                    pk.has_props = true;
                }
            }
        }
        _ => return Err("reserved packet type".into()),
    }
    if r.rem() != 0 {
        return Err(format!("{} trailing bytes", r.rem()));
    }
    Ok(pk)
}

// ---------------------------------------------------------------------------------------------
// encoding (what a server or client would put on the wire for the abstract packet)
//
// `form` selects the shortened forms: for PUBACK-family 2 = id only, 3 = id + reason, 4 = full;
// for DISCONNECT/AUTH 0 = empty, 1 = reason only, 2 = full. Anything else = full.

pub fn encode(pk: &Pk, form: u8) -> Vec<u8> {
    let mut v = vec![]; // variable header + payload
    match pk.t {
        CONNECT => {
            put_bin(b"MQTT", &mut v);
            v.push(5);
            v.push(pk.connect_flags);
            v.extend_from_slice(&pk.keep_alive.to_be_bytes());
            encode_props(&pk.props, &mut v);
            put_bin(&pk.client_id, &mut v);
            if let Some(w) = &pk.will {
                encode_props(&w.props, &mut v);
                put_bin(&w.topic, &mut v);
                put_bin(&w.payload, &mut v);
            }
            if let Some(u) = &pk.username {
                put_bin(u, &mut v);
            }
            if let Some(p) = &pk.password {
                put_bin(p, &mut v);
            }
        }
        CONNACK => {
            v.push(pk.session_present as u8);
            v.push(pk.rc.unwrap_or(0));
            encode_props(&pk.props, &mut v);
        }
        PUBLISH => {
            put_bin(&pk.topic, &mut v);
            if pk.qos() > 0 {
                v.extend_from_slice(&pk.id.unwrap_or(0).to_be_bytes());
            }
            encode_props(&pk.props, &mut v);
            v.extend_from_slice(&pk.payload);
        }
        PUBACK | PUBREC | PUBREL | PUBCOMP => {
            v.extend_from_slice(&pk.id.unwrap_or(0).to_be_bytes());
            if form != 2 {
                v.push(pk.rc.unwrap_or(0));
                if form != 3 {
                    encode_props(&pk.props, &mut v);
                }
            }
        }
        SUBSCRIBE | UNSUBSCRIBE => {
            v.extend_from_slice(&pk.id.unwrap_or(0).to_be_bytes());
            encode_props(&pk.props, &mut v);
            for (f, o) in &pk.filters {
                put_bin(f, &mut v);
                if pk.t == SUBSCRIBE {
                    v.push(*o);
                }
            }
        }
        SUBACK | UNSUBACK => {
            v.extend_from_slice(&pk.id.unwrap_or(0).to_be_bytes());
            encode_props(&pk.props, &mut v);
            v.extend_from_slice(&pk.rcs);
        }
        PINGREQ | PINGRESP => {}
        DISCONNECT | AUTH => {
            if form != 0 {
                v.push(pk.rc.unwrap_or(0));
                if form != 1 {
                    encode_props(&pk.props, &mut v);
                }
            }
        }
        _ => {}
    }
    let mut out = vec![(pk.t << 4) | (pk.flags & 0x0f)];
    vbi_encode(v.len() as u32, &mut out);
    out.extend_from_slice(&v);
    out
}

// ---------------------------------------------------------------------------------------------
// JSON views

fn lossy(b: &[u8]) -> String {
    String::from_utf8_lossy(b).into_owned()
}

/// Short rendering of a byte string: text if short, otherwise length + checksum.
pub fn digest_bytes(b: &[u8]) -> String {
    if b.len() <= 24 && b.iter().all(|c| (0x20..0x7f).contains(c) && *c != b'"' && *c != b'\\') {
        lossy(b)
    } else {
        let mut h: u64 = 0xcbf29ce484222325;
        for c in b {
            h ^= *c as u64;
            h = h.wrapping_mul(0x100000001b3);
        }
        format!("#{}:{:08x}", b.len(), (h & 0xffff_ffff) as u32)
    }
}

pub fn prop_digest(p: &Prop) -> String {
    match &p.v {
        PV::Byte(b) => format!("{:x}={}", p.id, b),
        PV::U16(b) => format!("{:x}={}", p.id, b),
        PV::U32(b) => format!("{:x}={}", p.id, b),
        PV::Vbi(b) => format!("{:x}={}", p.id, b),
        PV::Str(s) | PV::Bin(s) => format!("{:x}={}", p.id, digest_bytes(s)),
        PV::Pair(k, v) => format!("{:x}={}:{}", p.id, digest_bytes(k), digest_bytes(v)),
    }
}

/// Canonical content digest: non-user properties sorted by id (order is not significant for
/// them), user properties in wire order (their order is significant), subscription
/// identifiers excluded (they are routing information, carried separately).
pub fn content_digest(props: &[Prop], topic: &[u8], payload: &[u8]) -> String {
    let mut single: Vec<&Prop> = props.iter().filter(|p| p.id != 0x26 && p.id != 0x0b).collect();
    single.sort_by_key(|p| p.id);
    let mut parts: Vec<String> = single.iter().map(|p| prop_digest(p)).collect();
    for p in props.iter().filter(|p| p.id == 0x26) {
        parts.push(prop_digest(p));
    }
    format!("{}|{}|{}", digest_bytes(topic), digest_bytes(payload), parts.join(","))
}

impl Pk {
    /// The abstract record the trace specification works with (uniform fields for every type).
    pub fn abs(&self) -> Value {
        let sids: Vec<u32> = self.sids();
        let x = match self.t {
            SUBACK | UNSUBACK => format!(
                "{}|{}",
                self.rcs.iter().map(|r| format!("{:02x}", r)).collect::<Vec<_>>().join(""),
                content_digest(&self.props, b"", b"")
            ),
            SUBSCRIBE | UNSUBSCRIBE => format!(
                "{}|{}",
                self.filters
                    .iter()
                    .map(|(f, o)| format!("{}:{:02x}", digest_bytes(f), o))
                    .collect::<Vec<_>>()
                    .join(";"),
                content_digest(&self.props, b"", b"")
            ),
            DISCONNECT => {
                let ps: Vec<Prop> = self.props.iter().filter(|p| !(p.id == 0x11 && p.v == PV::U32(0))).cloned().collect();
                content_digest(&ps, b"", b"")
            }
            _ => content_digest(&self.props, &self.topic, &self.payload),
        };
        json!({
            "t": tname(self.t),
            "id": self.id.unwrap_or(0) as u32,
            "qos": if self.t == PUBLISH { self.qos() } else { 0 },
            "dup": if self.t == PUBLISH { self.dup() as u8 } else { 0 },
            "retain": if self.t == PUBLISH { self.retain() as u8 } else { 0 },
            "rc": self.rc.unwrap_or(0),
            "sids": sids,
            "tag": lossy(&self.topic),
            "len": self.total_len,
            "x": x,
        })
    }
}

#[cfg(test)]
mod test {
    use super::*;
    #[test]
    fn roundtrip_publish() {
        let mut p = Pk::new(PUBLISH);
        p.flags = 0x0b;
        p.topic = b"a/b".to_vec();
        p.id = Some(7);
        p.props = vec![Prop { id: 0x0b, v: PV::Vbi(300) }, Prop { id: 0x26, v: PV::Pair(b"k".to_vec(), b"v".to_vec()) }];
        p.payload = vec![1, 2, 3];
        let b = encode(&p, 9);
        let q = decode(&b).unwrap();
        assert_eq!(q.topic, p.topic);
        assert_eq!(q.props, p.props);
        assert_eq!(q.payload, p.payload);
        assert_eq!(frame_len(&b).unwrap(), Some(b.len()));
    }
    #[test]
    fn vbi() {
        for n in [0u32, 1, 127, 128, 16383, 16384, 2097151, 2097152, 268435455] {
            let mut o = vec![];
            vbi_encode(n, &mut o);
            assert_eq!(o.len(), vbi_len(n));
            assert_eq!(vbi_decode(&o).unwrap(), Some((n, o.len())));
        }
    }
}
