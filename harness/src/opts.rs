//! Owned option records (parsed from JSON) and their conversion into poster's option builders.
//!
//! Value conventions shared with the TLA+ wire specification: a string or binary is either a JSON
//! string (literal) or `{"tag": t, "n": len}` (deterministic filler of exactly `len` bytes);
//! an optional field is absent/null/`[]` (unset) or `[v]`/`v` (set).

use poster::reason::{AuthReason, DisconnectReason};
use poster::{
    AuthOpts, ConnectOpts, DisconnectOpts, PublishOpts, QoS, RetainHandling, SubscribeOpts,
    SubscriptionOpts, UnsubscribeOpts,
};
use serde_json::{json, Value};
use std::time::Duration;

pub fn fill_str(tag: &str, n: usize) -> Vec<u8> {
    let mut seed: u32 = 17;
    for c in tag.bytes() {
        seed = seed.wrapping_mul(31).wrapping_add(c as u32);
    }
    let multi = tag.ends_with('~');
    let mut out = Vec::with_capacity(n);
    let mut i: u32 = 0;
    while out.len() < n {
        let rem = n - out.len();
        let pick = seed.wrapping_add(i.wrapping_mul(7)) % 11;
        i += 1;
        if multi && pick == 3 && rem >= 2 {
            out.extend_from_slice("é".as_bytes());
        } else if multi && pick == 5 && rem >= 3 {
            out.extend_from_slice("€".as_bytes());
        } else if multi && pick == 8 && rem >= 4 {
            out.extend_from_slice("𝄞".as_bytes());
        } else {
            out.push(b'a' + ((seed.wrapping_add(i)) % 26) as u8);
        }
    }
    out
}

pub fn fill_bin(tag: &str, n: usize) -> Vec<u8> {
    let mut seed: u32 = 5;
    for c in tag.bytes() {
        seed = seed.wrapping_mul(131).wrapping_add(c as u32);
    }
    (0..n).map(|i| (seed.wrapping_add((i as u32).wrapping_mul(37)) & 0xff) as u8).collect()
}

fn unwrap_opt(v: &Value) -> Option<&Value> {
    match v {
        Value::Null => None,
        Value::Array(a) => a.first(),
        other => Some(other),
    }
}

pub fn sval(v: &Value) -> Option<Vec<u8>> {
    let v = unwrap_opt(v)?;
    match v {
        Value::String(s) => Some(s.as_bytes().to_vec()),
        Value::Object(o) => {
            let n = o.get("n")?.as_u64()? as usize;
            let tag = o.get("tag").and_then(|t| t.as_str()).unwrap_or("");
            Some(fill_str(tag, n))
        }
        _ => None,
    }
}

pub fn bval(v: &Value) -> Option<Vec<u8>> {
    let v = unwrap_opt(v)?;
    match v {
        Value::String(s) => Some(s.as_bytes().to_vec()),
        Value::Object(o) => {
            let n = o.get("n")?.as_u64()? as usize;
            let tag = o.get("tag").and_then(|t| t.as_str()).unwrap_or("");
            Some(fill_bin(tag, n))
        }
        _ => None,
    }
}

pub fn ival(v: &Value) -> Option<u64> {
    let v = unwrap_opt(v)?;
    if let Some(a) = v.as_array() {
        // a four-byte integer given as its bytes (the TLA+ side cannot hold 2^32-1 in an integer)
        if a.len() == 4 {
            return Some(a.iter().fold(0u64, |acc, b| (acc << 8) | (b.as_u64().unwrap_or(0) & 0xff)));
        }
        return None;
    }
    v.as_u64()
}

pub fn boolval(v: &Value) -> Option<bool> {
    let v = unwrap_opt(v)?;
    match v {
        Value::Bool(b) => Some(*b),
        Value::Number(n) => Some(n.as_u64()? != 0),
        _ => None,
    }
}

fn s(b: &Option<Vec<u8>>) -> Option<&str> {
    b.as_ref().map(|v| std::str::from_utf8(v).unwrap())
}

pub fn pairs(v: &Value) -> Vec<(Vec<u8>, Vec<u8>)> {
    v.as_array()
        .map(|a| {
            a.iter()
                .filter_map(|p| {
                    let p = p.as_array()?;
                    Some((sval(p.first()?)?, sval(p.get(1)?)?))
                })
                .collect()
        })
        .unwrap_or_default()
}

fn qos_of(n: u64) -> QoS {
    match n {
        0 => QoS::AtMostOnce,
        1 => QoS::AtLeastOnce,
        _ => QoS::ExactlyOnce,
    }
}

// ------------------------------------------------------------------------------------------------

pub struct PubOwned {
    pub qos: Option<u64>,
    pub retain: Option<bool>,
    pub topic: Option<Vec<u8>>,
    pub payload: Option<Vec<u8>>,
    pub pfi: Option<bool>,
    pub mei: Option<u64>,
    pub alias: Option<u64>,
    pub corr: Option<Vec<u8>>,
    pub resp: Option<Vec<u8>>,
    pub ctype: Option<Vec<u8>>,
    pub ups: Vec<(Vec<u8>, Vec<u8>)>,
}

impl PubOwned {
    pub fn from_json(v: &Value) -> PubOwned {
        PubOwned {
            qos: ival(&v["qos"]),
            retain: boolval(&v["retain"]),
            topic: sval(&v["topic"]),
            payload: bval(&v["payload"]),
            pfi: boolval(&v["pfi"]),
            mei: ival(&v["mei"]),
            alias: ival(&v["alias"]),
            corr: bval(&v["corr"]),
            resp: sval(&v["resp"]),
            ctype: sval(&v["ctype"]),
            ups: pairs(&v["ups"]),
        }
    }
    pub fn opts(&self) -> PublishOpts<'_> {
        let mut o = PublishOpts::new();
        if let Some(q) = self.qos {
            o = o.qos(qos_of(q));
        }
        if let Some(r) = self.retain {
            o = o.retain(r);
        }
        if let Some(t) = s(&self.topic) {
            o = o.topic_name(t);
        }
        if let Some(p) = &self.payload {
            o = o.payload(p);
        }
        if let Some(b) = self.pfi {
            o = o.payload_format_indicator(b);
        }
        if let Some(m) = self.mei {
            o = o.message_expiry_interval(Duration::from_secs(m));
        }
        if let Some(a) = self.alias {
            o = o.topic_alias(a as u16);
        }
        if let Some(c) = &self.corr {
            o = o.correlation_data(c);
        }
        if let Some(r) = s(&self.resp) {
            o = o.response_topic(r);
        }
        if let Some(c) = s(&self.ctype) {
            o = o.content_type(c);
        }
        for (k, v) in &self.ups {
            o = o.user_property((std::str::from_utf8(k).unwrap(), std::str::from_utf8(v).unwrap()));
        }
        o
    }
}

pub struct SubOwned {
    pub filters: Vec<(Vec<u8>, u64, bool, bool, u64)>,
    pub ups: Vec<(Vec<u8>, Vec<u8>)>,
}

impl SubOwned {
    pub fn from_json(v: &Value) -> SubOwned {
        let filters = v["filters"]
            .as_array()
            .map(|a| {
                a.iter()
                    .filter_map(|f| {
                        Some((
                            sval(&f["f"])?,
                            f["qos"].as_u64().unwrap_or(0),
                            boolval(&f["nl"]).unwrap_or(false),
                            boolval(&f["rap"]).unwrap_or(false),
                            f["rh"].as_u64().unwrap_or(0),
                        ))
                    })
                    .collect()
            })
            .unwrap_or_default();
        SubOwned { filters, ups: pairs(&v["ups"]) }
    }
    pub fn opts(&self) -> SubscribeOpts<'_> {
        let mut o = SubscribeOpts::new();
        for (f, q, nl, rap, rh) in &self.filters {
            let so = SubscriptionOpts::new()
                .maximum_qos(qos_of(*q))
                .no_local(*nl)
                .retain_as_published(*rap)
                .retain_handling(match rh {
                    0 => RetainHandling::SendOnSubscribe,
                    1 => RetainHandling::SendIfNoSubscription,
                    _ => RetainHandling::NoSendOnSubscribe,
                });
            o = o.subscription(std::str::from_utf8(f).unwrap(), so);
        }
        for (k, v) in &self.ups {
            o = o.user_property((std::str::from_utf8(k).unwrap(), std::str::from_utf8(v).unwrap()));
        }
        o
    }
}

pub struct UnsubOwned {
    pub filters: Vec<Vec<u8>>,
    pub ups: Vec<(Vec<u8>, Vec<u8>)>,
}

impl UnsubOwned {
    pub fn from_json(v: &Value) -> UnsubOwned {
        let filters = v["filters"]
            .as_array()
            .map(|a| a.iter().filter_map(|f| sval(&f["f"])).collect())
            .unwrap_or_default();
        UnsubOwned { filters, ups: pairs(&v["ups"]) }
    }
    pub fn opts(&self) -> UnsubscribeOpts<'_> {
        let mut o = UnsubscribeOpts::new();
        for f in &self.filters {
            o = o.topic_filter(std::str::from_utf8(f).unwrap());
        }
        for (k, v) in &self.ups {
            o = o.user_property((std::str::from_utf8(k).unwrap(), std::str::from_utf8(v).unwrap()));
        }
        o
    }
}

pub fn disc_reason(rc: u64) -> Option<DisconnectReason> {
    use DisconnectReason::*;
    Some(match rc {
        0x00 => Success,
        0x04 => DisconnectWithWillMessage,
        0x80 => UnspecifiedError,
        0x81 => MalformedPacket,
        0x82 => ProtocolError,
        0x83 => ImplementationSpecificError,
        0x87 => NotAuthorized,
        0x89 => ServerBusy,
        0x8b => ServerShuttingDown,
        0x8d => KeepAliveTimeout,
        0x8e => SessionTakenOver,
        0x8f => TopicFilterInvalid,
        0x90 => TopicNameInvalid,
        0x93 => ReceiveMaximumExcceeded,
        0x94 => TopicAliasInvalid,
        0x95 => PacketTooLarge,
        0x96 => MessageRateTooHigh,
        0x97 => QuotaExceeded,
        0x98 => AdministrativeAction,
        0x99 => PayloadFormatInvalid,
        0x9a => RetainNotSupported,
        0x9b => QoSNotSupported,
        0x9c => UseAnotherServer,
        0x9d => ServerMoved,
        0x9e => SharedSubscriptionsNotSupported,
        0x9f => ConnectionRateExceeded,
        0xa0 => MaximumConnectTime,
        0xa1 => SubscriptionIdentifiersNotSupported,
        0xa2 => WildcardSubscriptionsNotSupported,
        _ => return None,
    })
}

pub struct DiscOwned {
    pub reason: Option<u64>,
    pub sei: Option<u64>,
    pub rs: Option<Vec<u8>>,
    pub ups: Vec<(Vec<u8>, Vec<u8>)>,
}

impl DiscOwned {
    pub fn from_json(v: &Value) -> DiscOwned {
        DiscOwned { reason: ival(&v["reason"]), sei: ival(&v["sei"]), rs: sval(&v["rs"]), ups: pairs(&v["ups"]) }
    }
    pub fn opts(&self) -> DisconnectOpts<'_> {
        let mut o = DisconnectOpts::new();
        if let Some(r) = self.reason.and_then(disc_reason) {
            o = o.reason(r);
        }
        if let Some(x) = self.sei {
            o = o.session_expiry_interval(Duration::from_secs(x));
        }
        if let Some(r) = s(&self.rs) {
            o = o.reason_string(r);
        }
        for (k, v) in &self.ups {
            o = o.user_property((std::str::from_utf8(k).unwrap(), std::str::from_utf8(v).unwrap()));
        }
        o
    }
}

pub struct AuthOwned {
    pub reason: Option<u64>,
    pub method: Option<Vec<u8>>,
    pub data: Option<Vec<u8>>,
    pub ups: Vec<(Vec<u8>, Vec<u8>)>,
}

impl AuthOwned {
    pub fn from_json(v: &Value) -> AuthOwned {
        AuthOwned { reason: ival(&v["reason"]), method: sval(&v["method"]), data: bval(&v["data"]), ups: pairs(&v["ups"]) }
    }
    pub fn opts(&self) -> Option<AuthOpts<'_>> {
        let mut o = AuthOpts::new();
        if let Some(r) = self.reason {
            o = o.reason(match r {
                0x00 => AuthReason::Success,
                0x18 => AuthReason::ContinueAuthentication,
                0x19 => AuthReason::ReAuthenticate,
                _ => return None,
            });
        }
        if let Some(m) = s(&self.method) {
            o = o.authentication_method(m);
        }
        if let Some(d) = &self.data {
            o = o.authentication_data(d);
        }
        for (k, v) in &self.ups {
            o = o.user_property((std::str::from_utf8(k).unwrap(), std::str::from_utf8(v).unwrap()));
        }
        Some(o)
    }
}

pub struct ConnectOwned {
    pub client_id: Option<Vec<u8>>,
    pub keep_alive: Option<u64>,
    pub clean_start: Option<bool>,
    pub sei: Option<u64>,
    pub recv_max: Option<u64>,
    pub max_packet: Option<u64>,
    pub alias_max: Option<u64>,
    pub req_resp: Option<bool>,
    pub req_prob: Option<bool>,
    pub auth_method: Option<Vec<u8>>,
    pub auth_data: Option<Vec<u8>>,
    pub ups: Vec<(Vec<u8>, Vec<u8>)>,
    pub will_qos: Option<u64>,
    pub will_retain: Option<bool>,
    pub will_delay: Option<u64>,
    pub will_pfi: Option<bool>,
    pub will_mei: Option<u64>,
    pub will_ctype: Option<Vec<u8>>,
    pub will_resp: Option<Vec<u8>>,
    pub will_corr: Option<Vec<u8>>,
    pub will_ups: Vec<(Vec<u8>, Vec<u8>)>,
    pub will_topic: Option<Vec<u8>>,
    pub will_payload: Option<Vec<u8>>,
    pub username: Option<Vec<u8>>,
    pub password: Option<Vec<u8>>,
}

impl ConnectOwned {
    pub fn from_json(v: &Value) -> ConnectOwned {
        ConnectOwned {
            client_id: sval(&v["client_id"]),
            keep_alive: ival(&v["keep_alive"]),
            clean_start: boolval(&v["clean_start"]),
            sei: ival(&v["sei"]),
            recv_max: ival(&v["recv_max"]),
            max_packet: ival(&v["max_packet"]),
            alias_max: ival(&v["alias_max"]),
            req_resp: boolval(&v["req_resp"]),
            req_prob: boolval(&v["req_prob"]),
            auth_method: sval(&v["auth_method"]),
            auth_data: bval(&v["auth_data"]),
            ups: pairs(&v["ups"]),
            will_qos: ival(&v["will_qos"]),
            will_retain: boolval(&v["will_retain"]),
            will_delay: ival(&v["will_delay"]),
            will_pfi: boolval(&v["will_pfi"]),
            will_mei: ival(&v["will_mei"]),
            will_ctype: sval(&v["will_ctype"]),
            will_resp: sval(&v["will_resp"]),
            will_corr: bval(&v["will_corr"]),
            will_ups: pairs(&v["will_ups"]),
            will_topic: sval(&v["will_topic"]),
            will_payload: bval(&v["will_payload"]),
            username: sval(&v["username"]),
            password: bval(&v["password"]),
        }
    }
    pub fn opts(&self) -> ConnectOpts<'_> {
        let mut o = ConnectOpts::new();
        if let Some(x) = s(&self.client_id) {
            o = o.client_identifier(x);
        }
        if let Some(x) = self.keep_alive {
            o = o.keep_alive(Duration::from_secs(x));
        }
        if let Some(x) = self.clean_start {
            o = o.clean_start(x);
        }
        if let Some(x) = self.sei {
            o = o.session_expiry_interval(Duration::from_secs(x));
        }
        if let Some(x) = self.recv_max {
            o = o.receive_maximum(x as u16);
        }
        if let Some(x) = self.max_packet {
            o = o.maximum_packet_size(x as u32);
        }
        if let Some(x) = self.alias_max {
            o = o.topic_alias_maximum(x as u16);
        }
        if let Some(x) = self.req_resp {
            o = o.request_response_information(x);
        }
        if let Some(x) = self.req_prob {
            o = o.request_problem_information(x);
        }
        if let Some(x) = s(&self.auth_method) {
            o = o.authentication_method(x);
        }
        if let Some(x) = &self.auth_data {
            o = o.authentication_data(x);
        }
        for (k, v) in &self.ups {
            o = o.user_property((std::str::from_utf8(k).unwrap(), std::str::from_utf8(v).unwrap()));
        }
        if let Some(x) = self.will_qos {
            o = o.will_qos(qos_of(x));
        }
        if let Some(x) = self.will_retain {
            o = o.will_retain(x);
        }
        if let Some(x) = self.will_delay {
            o = o.will_delay_interval(Duration::from_secs(x));
        }
        if let Some(x) = self.will_pfi {
            o = o.will_payload_format_indicator(x);
        }
        if let Some(x) = self.will_mei {
            o = o.will_message_expiry_interval(Duration::from_secs(x));
        }
        if let Some(x) = s(&self.will_ctype) {
            o = o.will_content_type(x);
        }
        if let Some(x) = s(&self.will_resp) {
            o = o.will_response_topic(x);
        }
        if let Some(x) = &self.will_corr {
            o = o.will_correlation_data(x);
        }
        for (k, v) in &self.will_ups {
            o = o.will_user_property((std::str::from_utf8(k).unwrap(), std::str::from_utf8(v).unwrap()));
        }
        if let Some(x) = s(&self.will_topic) {
            o = o.will_topic(x);
        }
        if let Some(x) = &self.will_payload {
            o = o.will_payload(x);
        }
        if let Some(x) = s(&self.username) {
            o = o.username(x);
        }
        if let Some(x) = &self.password {
            o = o.password(x);
        }
        o
    }
}

// ------------------------------------------------------------------------------------------------
// the `call` trace line: the abstract option record (lengths and flags) from which the TLA+ wire
// specification computes the encoded packet length.

fn plen(v: &Option<Vec<u8>>) -> usize {
    v.as_ref().map(|x| x.len()).unwrap_or(0)
}

pub fn call_line(spec: &Value) -> Value {
    let kind = spec["kind"].as_str().unwrap_or("");
    let mut ps: Vec<Value> = vec![];
    let mut fl: Vec<usize> = vec![];
    let mut qos = 0;
    let mut retain = 0;
    let mut tl = 0;
    let mut pl = 0;
    let mut tag = String::new();
    let mut rcf = 0; // disconnect: reason or properties present -> long form
    let push_ups = |ps: &mut Vec<Value>, ups: &Vec<(Vec<u8>, Vec<u8>)>| {
        for (k, v) in ups {
            ps.push(json!([0x26, k.len(), v.len()]));
        }
    };
    match kind {
        "pub" => {
            let o = PubOwned::from_json(spec);
            qos = o.qos.unwrap_or(0);
            retain = o.retain.unwrap_or(false) as u8;
            tl = plen(&o.topic);
            pl = plen(&o.payload);
            tag = o.topic.as_ref().map(|t| String::from_utf8_lossy(t).into_owned()).unwrap_or_default();
            if tag.len() > 32 {
                tag = tag.chars().take(16).collect();
            }
            if o.pfi.is_some() {
                ps.push(json!([0x01, 0, 0]));
            }
            if o.mei.is_some() {
                ps.push(json!([0x02, 0, 0]));
            }
            if o.alias.is_some() {
                ps.push(json!([0x23, 0, 0]));
            }
            if let Some(c) = &o.corr {
                ps.push(json!([0x09, c.len(), 0]));
            }
            if let Some(c) = &o.resp {
                ps.push(json!([0x08, c.len(), 0]));
            }
            if let Some(c) = &o.ctype {
                ps.push(json!([0x03, c.len(), 0]));
            }
            push_ups(&mut ps, &o.ups);
        }
        "sub" => {
            let o = SubOwned::from_json(spec);
            for f in &o.filters {
                fl.push(f.0.len());
            }
            tag = o.filters.first().map(|f| String::from_utf8_lossy(&f.0).into_owned()).unwrap_or_default();
            push_ups(&mut ps, &o.ups);
        }
        "unsub" => {
            let o = UnsubOwned::from_json(spec);
            for f in &o.filters {
                fl.push(f.len());
            }
            tag = o.filters.first().map(|f| String::from_utf8_lossy(f).into_owned()).unwrap_or_default();
            push_ups(&mut ps, &o.ups);
        }
        "disc" => {
            let o = DiscOwned::from_json(spec);
            if o.sei.is_some() {
                ps.push(json!([0x11, 0, 0]));
            }
            if let Some(r) = &o.rs {
                ps.push(json!([0x1f, r.len(), 0]));
            }
            push_ups(&mut ps, &o.ups);
            rcf = o.reason.unwrap_or(0);
        }
        _ => {}
    }
    json!({"kind": kind, "qos": qos, "retain": retain, "tl": tl, "pl": pl, "ps": ps, "fl": fl, "tag": tag, "rcf": rcf})
}
