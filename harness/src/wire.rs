//! C01 / C02: cases enumerated by TLC from MqttWire.tla (option record / server packet + what the
//! specification says must come out) driven through the real client and compared.

use crate::mqtt::{self, Pk, Prop, PV};
use crate::opts::{fill_bin, fill_str};
use crate::session::{self, start, Params};
use crate::sim::{Cmd, Sim};
use serde_json::{json, Value};
use std::collections::HashMap;
use std::io::{BufRead, BufReader, Write};

fn fill_s(v: &Value) -> Vec<u8> {
    fill_str(v["tag"].as_str().unwrap_or(""), v["n"].as_u64().unwrap_or(0) as usize)
}

fn fill_b(v: &Value) -> Vec<u8> {
    fill_bin(v["tag"].as_str().unwrap_or(""), v["n"].as_u64().unwrap_or(0) as usize)
}

fn q_u32(v: &Value) -> u32 {
    let a = v.as_array().cloned().unwrap_or_default();
    a.iter().fold(0u32, |acc, b| (acc << 8) | (b.as_u64().unwrap_or(0) as u32 & 0xff))
}

/// property record of the specification [id, k, i, s, s2, q] -> property of the independent codec
fn prop_of(p: &Value) -> Prop {
    let id = p["id"].as_u64().unwrap_or(0) as u8;
    let v = match p["k"].as_str().unwrap_or("") {
        "b" => PV::Byte(p["i"].as_u64().unwrap_or(0) as u8),
        "w" => PV::U16(p["i"].as_u64().unwrap_or(0) as u16),
        "d" => PV::U32(q_u32(&p["q"])),
        "v" => PV::Vbi(p["i"].as_u64().unwrap_or(0) as u32),
        "s" => PV::Str(fill_s(&p["s"])),
        "x" => PV::Bin(fill_b(&p["s"])),
        _ => PV::Pair(fill_s(&p["s"]), fill_s(&p["s2"])),
    };
    Prop { id, v }
}

fn props_match(expected: &Value, got: &[Prop]) -> Result<(), String> {
    let exp: Vec<Prop> = expected.as_array().map(|a| a.iter().map(prop_of).collect()).unwrap_or_default();
    let mut e1: Vec<&Prop> = exp.iter().filter(|p| p.id != 0x26).collect();
    let mut g1: Vec<&Prop> = got.iter().filter(|p| p.id != 0x26).collect();
    e1.sort_by_key(|p| p.id);
    g1.sort_by_key(|p| p.id);
    if e1 != g1 {
        return Err(format!(
            "properties differ: expected {:?}, written {:?}",
            e1.iter().map(|p| mqtt::prop_digest(p)).collect::<Vec<_>>(),
            g1.iter().map(|p| mqtt::prop_digest(p)).collect::<Vec<_>>()
        ));
    }
    let e2: Vec<&Prop> = exp.iter().filter(|p| p.id == 0x26).collect();
    let g2: Vec<&Prop> = got.iter().filter(|p| p.id == 0x26).collect();
    if e2 != g2 {
        return Err(format!("user properties differ: expected {} written {}", e2.len(), g2.len()));
    }
    Ok(())
}

fn connect_spec(o: &Value) -> Value {
    let w = &o["will"];
    let mut s = json!({
        "client_id": o["cid"], "keep_alive": o["keepalive"], "clean_start": o["clean"], "sei": o["sei"], "recv_max": o["recvmax"],
        "max_packet": o["maxpkt"], "alias_max": o["aliasmax"], "req_resp": o["reqresp"], "req_prob": o["reqprob"],
        "auth_method": o["method"], "auth_data": o["data"], "ups": o["ups"], "username": o["user"], "password": o["pass"],
    });
    if w["on"].as_bool().unwrap_or(false) {
        s["will_qos"] = w["qos"].clone();
        s["will_retain"] = w["retain"].clone();
        s["will_delay"] = w["delay"].clone();
        s["will_pfi"] = w["pfi"].clone();
        s["will_mei"] = w["mei"].clone();
        s["will_ctype"] = w["ctype"].clone();
        s["will_resp"] = w["resp"].clone();
        s["will_corr"] = w["corr"].clone();
        s["will_ups"] = w["ups"].clone();
        s["will_topic"] = w["topic"].clone();
        s["will_payload"] = w["payload"].clone();
    }
    s
}

fn op_spec(kind: &str, o: &Value) -> Value {
    let mut s = o.clone();
    s["kind"] = json!(kind);
    s
}

struct TxOut {
    raw: Vec<Vec<u8>>,
    refused: bool,
    panic: Option<String>,
}

fn run_tx(kind: &str, o: &Value) -> TxOut {
    match kind {
        "connect" | "auth" => {
            let mut s = Sim::new();
            s.quiet = true;
            if kind == "connect" {
                s.command(Cmd::Connect(connect_spec(o)));
                let r = s.poll_ctx();
                let refused = r.iter().any(|v| v["r"] == "ret");
                TxOut { raw: s.wire.raw.clone(), refused, panic: s.panics.first().cloned() }
            } else {
                s.command(Cmd::Connect(json!({"client_id": "pvh", "auth_method": "m", "auth_data": "d"})));
                s.poll_ctx();
                let mut ch = Pk::new(mqtt::AUTH);
                ch.rc = Some(0x18);
                ch.props.push(Prop { id: 0x15, v: PV::Str(b"m".to_vec()) });
                ch.props.push(Prop { id: 0x16, v: PV::Bin(b"c".to_vec()) });
                s.inject_packet(&ch, 9);
                s.poll_ctx();
                let before = s.wire.raw.len();
                s.ctx_results.clear();
                s.command(Cmd::Authorize(o.clone()));
                let r = s.poll_ctx();
                let refused = r.iter().any(|v| v["r"] == "ret");
                TxOut { raw: s.wire.raw[before..].to_vec(), refused, panic: s.panics.first().cloned() }
            }
        }
        _ => {
            let p = Params { fam: "wire".into(), ..Default::default() };
            let mut s = start(&p);
            s.quiet = true;
            s.call(1, 0, &op_spec(kind, o));
            let r = s.poll_op(1).unwrap_or(Value::Null);
            s.poll_ctx();
            let refused = r["r"] == "err";
            TxOut { raw: s.wire.raw.clone(), refused, panic: s.panics.first().cloned() }
        }
    }
}

fn check_tx(kind: &str, e: &Value, out: &TxOut) -> Result<(), String> {
    if let Some(p) = &out.panic {
        return Err(format!("panic: {}", p));
    }
    if e["refused"].as_bool().unwrap_or(false) {
        if !out.raw.is_empty() {
            return Err("a request missing a mandatory part was written".into());
        }
        if !out.refused {
            return Err("a request missing a mandatory part was not refused".into());
        }
        return Ok(());
    }
    if out.refused && out.raw.is_empty() {
        return Err("a representable request was refused".into());
    }
    if out.raw.len() != 1 {
        return Err(format!("{} packets written for one request", out.raw.len()));
    }
    let b = &out.raw[0];
    let pk = mqtt::decode(b).map_err(|e| format!("not well-formed: {}", e))?;
    if mqtt::tname(pk.t) != e["t"].as_str().unwrap_or("") {
        return Err(format!("packet type {}", mqtt::tname(pk.t)));
    }
    let lens: Vec<u64> = e["lens"].as_array().map(|a| a.iter().filter_map(|x| x.as_u64()).collect()).unwrap_or_default();
    if !lens.contains(&(b.len() as u64)) {
        return Err(format!("encoded length {} not in {:?}", b.len(), lens));
    }
    let mut props = pk.props.clone();
    match pk.t {
        mqtt::PUBLISH => {
            if pk.flags as u64 != e["flags"].as_u64().unwrap_or(0) {
                return Err(format!("fixed header flags {:#x}, expected {:#x}", pk.flags, e["flags"].as_u64().unwrap_or(0)));
            }
            if e["hasid"].as_bool().unwrap_or(false) != pk.id.is_some() {
                return Err("packet identifier presence".into());
            }
            if pk.topic != fill_s(&e["topic"]) {
                return Err("topic differs".into());
            }
            if pk.payload != fill_b(&e["payload"]) {
                return Err("payload differs".into());
            }
        }
        mqtt::SUBSCRIBE | mqtt::UNSUBSCRIBE => {
            if pk.id.unwrap_or(0) == 0 {
                return Err("packet identifier 0".into());
            }
            if pk.t == mqtt::SUBSCRIBE {
                let sids: Vec<&Prop> = props.iter().filter(|p| p.id == 0x0b).collect();
                if sids.len() != 1 || sids[0].v == PV::Vbi(0) {
                    return Err("SUBSCRIBE must carry exactly one non-zero subscription identifier".into());
                }
                props.retain(|p| p.id != 0x0b);
            }
            let ef: Vec<(Vec<u8>, u8)> = e["filters"].as_array().map(|a| a.iter().map(|f| (fill_s(&f["f"]), f["o"].as_u64().unwrap_or(0) as u8)).collect()).unwrap_or_default();
            if pk.filters != ef {
                return Err(format!(
                    "topic filters / subscription options differ: written options {:?}, expected {:?}",
                    pk.filters.iter().map(|f| f.1).collect::<Vec<_>>(),
                    ef.iter().map(|f| f.1).collect::<Vec<_>>()
                ));
            }
        }
        mqtt::DISCONNECT | mqtt::AUTH => {
            if pk.rc.unwrap_or(0) as u64 != e["rc"].as_u64().unwrap_or(0) {
                return Err(format!("reason code {:#x}", pk.rc.unwrap_or(0)));
            }
        }
        mqtt::CONNECT => {
            if pk.connect_flags as u64 != e["cflags"].as_u64().unwrap_or(0) {
                return Err(format!("connect flags {:#x}, expected {:#x}", pk.connect_flags, e["cflags"].as_u64().unwrap_or(0)));
            }
            if pk.keep_alive as u64 != e["keepalive"].as_u64().unwrap_or(0) {
                return Err("keep alive".into());
            }
            if pk.client_id != fill_s(&e["cid"]) {
                return Err("client identifier".into());
            }
            let w = &e["will"];
            match (&pk.will, w["on"].as_bool().unwrap_or(false)) {
                (Some(pw), true) => {
                    props_match(&w["props"], &pw.props).map_err(|x| format!("will {}", x))?;
                    if pw.topic != fill_s(&w["topic"]) || pw.payload != fill_b(&w["payload"]) {
                        return Err("will topic/payload".into());
                    }
                }
                (None, false) => {}
                _ => return Err("will presence".into()),
            }
            let eu = e["user"].as_array().and_then(|a| a.first()).map(fill_s);
            let ep = e["pass"].as_array().and_then(|a| a.first()).map(fill_b);
            if pk.username != eu || pk.password != ep {
                return Err("user name / password".into());
            }
        }
        _ => {}
    }
    props_match(&e["props"], &props)?;
    let _ = kind;
    Ok(())
}

fn shard_of(a: &HashMap<String, String>) -> (usize, usize) {
    (a.get("shard").and_then(|s| s.parse().ok()).unwrap_or(0), a.get("shards").and_then(|s| s.parse().ok()).unwrap_or(1))
}

pub fn wiretx(a: &HashMap<String, String>) -> i32 {
    let dir = a.get("dir").cloned().unwrap_or(".".into());
    let (shard, shards) = shard_of(a);
    let mut out: Box<dyn Write> = match a.get("out") {
        Some(p) => Box::new(std::io::BufWriter::new(std::fs::File::create(p).expect("out"))),
        None => Box::new(std::io::stdout()),
    };
    let mut idx = 0usize;
    for name in ["tx_pub", "tx_sub", "tx_unsub", "tx_disc", "tx_auth", "tx_connect", "tx_ping"] {
        let f = match std::fs::File::open(format!("{}/{}.ndjson", dir, name)) {
            Ok(f) => f,
            Err(_) => continue,
        };
        for line in BufReader::new(f).lines() {
            let line = line.unwrap();
            idx += 1;
            if idx % shards != shard || line.trim().is_empty() {
                continue;
            }
            let c: Value = serde_json::from_str(&line).expect("case");
            let kind = c["kind"].as_str().unwrap_or("");
            let o = run_tx(kind, &c["o"]);
            let r = check_tx(kind, &c["e"], &o);
            let hexs: Vec<String> = o.raw.iter().map(|b| crate::sim::hex(&b[..b.len().min(96)])).collect();
            let rec = match r {
                Ok(()) => json!({"i": idx, "file": name, "kind": kind, "ok": true, "len": o.raw.first().map(|b| b.len()).unwrap_or(0), "refused": o.refused}),
                Err(why) => json!({"i": idx, "file": name, "kind": kind, "ok": false, "why": why, "hex": hexs, "o": c["o"]}),
            };
            writeln!(out, "{}", rec).unwrap();
        }
    }
    0
}

// ---------------------------------------------------------------------------------------------
// C02

fn case_packet(c: &Value) -> (Pk, u8) {
    let t = mqtt::tcode(c["t"].as_str().unwrap_or(""));
    let mut pk = Pk::new(t);
    pk.props = c["props"].as_array().map(|a| a.iter().map(prop_of).collect()).unwrap_or_default();
    pk.rc = Some(c["rc"].as_u64().unwrap_or(0) as u8);
    let id = c["id"].as_u64().unwrap_or(0) as u16;
    pk.id = if id != 0 { Some(id) } else { None };
    match t {
        mqtt::PUBLISH => {
            let q = c["qos"].as_u64().unwrap_or(0) as u8;
            pk.flags = (q << 1) | ((c["dup"].as_u64().unwrap_or(0) as u8) << 3) | (c["retain"].as_u64().unwrap_or(0) as u8);
            pk.topic = fill_s(&c["topic"]);
            pk.payload = fill_b(&c["payload"]);
            if q == 0 {
                pk.id = None;
            }
        }
        mqtt::PUBREL => pk.flags = 2,
        mqtt::SUBACK | mqtt::UNSUBACK => {
            pk.rcs = c["rcs"].as_array().map(|a| a.iter().map(|x| x.as_u64().unwrap_or(0) as u8).collect()).unwrap_or_default();
        }
        mqtt::CONNACK => pk.session_present = c["sp"].as_bool().unwrap_or(false),
        _ => {}
    }
    (pk, c["form"].as_u64().unwrap_or(9) as u8)
}

/// expected accessor value (specification) against observed JSON
fn acc_eq(name: &str, exp: &Value, got: &Value) -> Result<(), String> {
    let binary = matches!(name, "authentication_data" | "correlation_data" | "payload_bin");
    let mism = || Err(format!("accessor {}: expected {} got {}", name, exp, got));
    match exp {
        Value::Object(o) if o.contains_key("tag") && o.contains_key("n") => {
            let want = if binary { json!(crate::sim::hex(&fill_b(exp))) } else { json!(String::from_utf8_lossy(&fill_s(exp))) };
            if &want != got {
                return Err(format!("accessor {}: expected filler {}:{} got {}", name, exp["tag"], exp["n"], trunc(got)));
            }
            Ok(())
        }
        Value::Array(a) if a.len() == 4 && a.iter().all(|x| x.is_u64()) && matches!(name, "session_expiry_interval" | "maximum_packet_size" | "message_expiry_interval") => {
            if json!(q_u32(exp) as u64) != *got {
                return mism();
            }
            Ok(())
        }
        Value::Array(a) => {
            let g = match got.as_array() {
                Some(g) => g,
                None => return mism(),
            };
            if a.len() != g.len() {
                return Err(format!("accessor {}: expected {} entries got {}", name, a.len(), g.len()));
            }
            for (x, y) in a.iter().zip(g.iter()) {
                acc_eq(name, x, y)?;
            }
            Ok(())
        }
        Value::Bool(_) | Value::Number(_) | Value::String(_) => {
            if exp != got {
                return mism();
            }
            Ok(())
        }
        _ => Ok(()),
    }
}

fn trunc(v: &Value) -> String {
    let s = v.to_string();
    if s.len() > 60 {
        format!("{}...", &s[..60])
    } else {
        s
    }
}

fn accs_eq(exp: &Value, got: &Value) -> Result<(), String> {
    let o = match exp.as_object() {
        Some(o) => o,
        None => return Ok(()),
    };
    for (k, v) in o {
        let name = if k == "payload" && got[k].is_string() { "payload_bin" } else { k.as_str() };
        if got.get(k).is_none() {
            return Err(format!("accessor {} not exposed", k));
        }
        acc_eq(name, v, &got[k])?;
    }
    Ok(())
}

fn run_rx(c: &Value, explen: u64, acc: &Value, split: &[usize]) -> Result<(), String> {
    let (pk, form) = case_packet(c);
    let bytes = mqtt::encode(&pk, form);
    if bytes.len() as u64 != explen {
        return Err(format!("TOOL: harness encoder length {} differs from the specification's {}", bytes.len(), explen));
    }
    mqtt::decode(&bytes).map_err(|e| format!("TOOL: generated packet not well-formed: {}", e))?;
    let t = pk.t;
    let rc = pk.rc.unwrap_or(0);
    let mut rng: rand::rngs::StdRng = rand::SeedableRng::seed_from_u64(1);
    let expect_ok = &acc["ok"];
    let expect_err = &acc["err"];
    match t {
        mqtt::CONNACK | mqtt::AUTH => {
            let mut s = Sim::new();
            s.quiet = true;
            s.command(Cmd::Connect(json!({"client_id": "pvh", "auth_method": "m", "auth_data": "d"})));
            s.poll_ctx();
            s.inject_bytes(&bytes, split, vec![]);
            let r = s.poll_ctx();
            if let Some(p) = s.panics.first() {
                return Err(format!("panic: {}", p));
            }
            let r = r.last().cloned().ok_or("connect() did not return")?;
            if t == mqtt::CONNACK && rc >= 0x80 {
                if r["kind"] != "ConnectError" {
                    return Err(format!("connect() returned {}", r["kind"]));
                }
                accs_eq(expect_err, &r["acc"])
            } else {
                let want = if t == mqtt::CONNACK { "ConnectRsp" } else { "AuthRsp" };
                if r["kind"] != want {
                    return Err(format!("not accepted: connect() returned {}", r["kind"]));
                }
                accs_eq(expect_ok, &r["acc"])
            }
        }
        _ => {
            let p = Params { fam: "wire".into(), ..Default::default() };
            let mut s = start(&p);
            s.quiet = true;
            s.full_acc = true;
            match t {
                mqtt::PUBLISH => {
                    s.call(1, 0, &json!({"kind": "sub", "filters": [{"f": "f/1", "qos": 2}]}));
                    s.poll_op(1);
                    s.poll_ctx();
                    let mut sa = Pk::new(mqtt::SUBACK);
                    sa.id = Some(1);
                    sa.rcs = vec![2];
                    s.inject_packet(&sa, 9);
                    s.poll_ctx();
                    s.poll_op(1);
                    s.inject_bytes(&bytes, split, vec![]);
                    session::settle(&mut s, &mut rng, false);
                    if let Some(p) = s.panics.first() {
                        return Err(format!("panic: {}", p));
                    }
                    if s.ctx_returned {
                        return Err(format!("not accepted: run() returned {}", s.ctx_results.last().map(|r| r["kind"].to_string()).unwrap_or_default()));
                    }
                    let items = s.items.get(&1).cloned().unwrap_or_default();
                    if items.len() != 1 {
                        return Err(format!("{} items yielded", items.len()));
                    }
                    accs_eq(expect_ok, &items[0]["acc"])
                }
                mqtt::PUBACK | mqtt::PUBREC | mqtt::PUBCOMP | mqtt::PUBREL => {
                    let q = if t == mqtt::PUBACK { 1 } else { 2 };
                    if t != mqtt::PUBREL {
                        s.call(1, 0, &json!({"kind": "pub", "qos": q, "topic": "t/1", "payload": "x", "acc": true}));
                        s.poll_op(1);
                        s.poll_ctx();
                        if t == mqtt::PUBCOMP {
                            s.inject_packet(&session::ack(mqtt::PUBREC, 1, 0), 9);
                            session::settle(&mut s, &mut rng, false);
                        }
                    }
                    let before = s.wire.raw.len();
                    s.inject_bytes(&bytes, split, vec![]);
                    session::settle(&mut s, &mut rng, false);
                    if let Some(p) = s.panics.first() {
                        return Err(format!("panic: {}", p));
                    }
                    if s.ctx_returned {
                        return Err(format!("not accepted: run() returned {}", s.ctx_results.last().map(|r| r["kind"].to_string()).unwrap_or_default()));
                    }
                    if t == mqtt::PUBREL {
                        let w: Vec<Pk> = s.wire.raw[before..].iter().filter_map(|b| mqtt::decode(b).ok()).collect();
                        if w.len() != 1 || w[0].t != mqtt::PUBCOMP || w[0].id != pk.id {
                            return Err("PUBREL not answered by exactly one PUBCOMP with its identifier".into());
                        }
                        return Ok(());
                    }
                    let r = s.op_results.get(&1).cloned();
                    if rc >= 0x80 {
                        let r = r.ok_or("publish() did not complete on a failing acknowledgement")?;
                        let want = match t {
                            mqtt::PUBACK => "PubackError",
                            mqtt::PUBREC => "PubrecError",
                            _ => "PubcompError",
                        };
                        if r["kind"] != want {
                            return Err(format!("publish() returned {} {}", r["r"], r["kind"]));
                        }
                        accs_eq(expect_ok, &r["acc"])
                    } else if t == mqtt::PUBREC {
                        let w: Vec<Pk> = s.wire.raw[before..].iter().filter_map(|b| mqtt::decode(b).ok()).collect();
                        if r.is_some() || w.len() != 1 || w[0].t != mqtt::PUBREL {
                            return Err("successful PUBREC not followed by PUBREL".into());
                        }
                        Ok(())
                    } else {
                        let r = r.ok_or("publish() did not complete")?;
                        if r["r"] != "ok" {
                            return Err(format!("publish() returned {} {}", r["r"], r["kind"]));
                        }
                        Ok(())
                    }
                }
                mqtt::SUBACK | mqtt::UNSUBACK => {
                    let spec = if t == mqtt::SUBACK {
                        json!({"kind": "sub", "filters": [{"f": "f/1", "qos": 2}], "acc": true})
                    } else {
                        json!({"kind": "unsub", "filters": [{"f": "f/1"}], "acc": true})
                    };
                    s.call(1, 0, &spec);
                    s.poll_op(1);
                    s.poll_ctx();
                    s.inject_bytes(&bytes, split, vec![]);
                    session::settle(&mut s, &mut rng, false);
                    if let Some(p) = s.panics.first() {
                        return Err(format!("panic: {}", p));
                    }
                    if s.ctx_returned {
                        return Err(format!("not accepted: run() returned {}", s.ctx_results.last().map(|r| r["kind"].to_string()).unwrap_or_default()));
                    }
                    let r = s.op_results.get(&1).cloned().ok_or("operation did not complete")?;
                    if r["r"] != "ok" {
                        return Err(format!("operation returned {} {}", r["r"], r["kind"]));
                    }
                    accs_eq(expect_ok, &r["acc"])
                }
                mqtt::PINGRESP => {
                    s.call(1, 0, &json!({"kind": "ping"}));
                    s.poll_op(1);
                    s.poll_ctx();
                    s.inject_bytes(&bytes, split, vec![]);
                    session::settle(&mut s, &mut rng, false);
                    match s.op_results.get(&1) {
                        Some(r) if r["r"] == "ok" => Ok(()),
                        other => Err(format!("ping: {:?}", other)),
                    }
                }
                mqtt::DISCONNECT => {
                    s.inject_bytes(&bytes, split, vec![]);
                    session::settle(&mut s, &mut rng, false);
                    if let Some(p) = s.panics.first() {
                        return Err(format!("panic: {}", p));
                    }
                    let r = s.ctx_results.last().cloned().ok_or("run() did not return on DISCONNECT")?;
                    if rc == 0 {
                        if r["kind"] != "Ok" {
                            return Err(format!("run() returned {}", r["kind"]));
                        }
                        Ok(())
                    } else {
                        if r["kind"] != "Disconnected" {
                            return Err(format!("not accepted: run() returned {}", r["kind"]));
                        }
                        accs_eq(expect_ok, &r["acc"])
                    }
                }
                _ => Err("TOOL: unknown case".into()),
            }
        }
    }
}

pub fn wirerx(a: &HashMap<String, String>) -> i32 {
    let dir = a.get("dir").cloned().unwrap_or(".".into());
    let (shard, shards) = shard_of(a);
    let mut out: Box<dyn Write> = match a.get("out") {
        Some(p) => Box::new(std::io::BufWriter::new(std::fs::File::create(p).expect("out"))),
        None => Box::new(std::io::stdout()),
    };
    let mut idx = 0usize;
    for name in ["rx_connack", "rx_auth", "rx_publish", "rx_ack", "rx_suback", "rx_disconnect", "rx_pingresp"] {
        let f = match std::fs::File::open(format!("{}/{}.ndjson", dir, name)) {
            Ok(f) => f,
            Err(_) => continue,
        };
        for line in BufReader::new(f).lines() {
            let line = line.unwrap();
            idx += 1;
            if idx % shards != shard || line.trim().is_empty() {
                continue;
            }
            let c: Value = serde_json::from_str(&line).expect("case");
            // the packet arrives whole, cut inside its fixed header (after 2 bytes: inside a multi-byte remaining length for
            // bodies of 128 bytes and more), and with its first bytes one per read: what the accessors expose must not depend on it
            let mut r = Ok(());
            for split in [&[][..], &[2][..], &[1, 1, 1, 1][..]] {
                r = run_rx(&c["c"], c["len"].as_u64().unwrap_or(0), &c["acc"], split).map_err(|e| if split.is_empty() { e } else { format!("{} (delivered in reads of {:?} bytes, then the rest)", e, split) });
                if r.is_err() {
                    break;
                }
            }
            let rec = match r {
                Ok(()) => json!({"i": idx, "file": name, "t": c["c"]["t"], "ok": true, "len": c["len"], "form": c["c"]["form"], "np": c["c"]["props"].as_array().map(|a| a.len()).unwrap_or(0)}),
                Err(why) => json!({"i": idx, "file": name, "t": c["c"]["t"], "ok": false, "why": why, "c": c["c"]}),
            };
            writeln!(out, "{}", rec).unwrap();
        }
    }
    0
}
