//! Session-level scripts: connection set-up, script interpreter, random walks.
//!
//! A *script* is a JSON array of steps; executing it against the real client produces the
//! NDJSON trace.  Random walks generate their steps one at a time (they depend on what the
//! client has put on the wire) and record them, so that every run can be replayed exactly.

use crate::io::WrMode;
use crate::mqtt::{self, Pk, Prop, PV};
use crate::opts;
use crate::sim::{Cmd, Sim, Task};
use rand::rngs::StdRng;
use rand::{Rng, SeedableRng};
use serde_json::{json, Value};

#[derive(Clone, Debug)]
pub struct Params {
    pub run: usize,
    pub fam: String,
    pub r: Option<u16>,
    pub m: Option<u32>,
    pub sei_connect: Option<u32>,
    pub sei_connack: Option<u32>,
    pub disc: String,
    pub mode: String,
    pub log_io: bool,
    /// extended authentication: CONNECT with an Authentication Method, an AUTH challenge, authorize(), and only then the CONNACK
    pub auth: bool,
    /// Maximum Packet Size the CLIENT announces in CONNECT (limits what the server may send, never what the client sends)
    pub own_max: Option<u32>,
    /// Receive Maximum the CLIENT announces in CONNECT (limits the server's sending, never the client's)
    pub own_rmax: Option<u16>,
    /// the handshake is not performed by `reset` but by a later `handshake` step (operations may be started, and polled, before
    /// connect() has completed: their requests wait in the channel)
    pub defer: bool,
    /// packet identifiers consumed (by untraced, completed UNSUBSCRIBE exchanges) before the traced part of the run starts
    pub burn: u32,
}

impl Default for Params {
    fn default() -> Params {
        Params {
            run: 0,
            fam: "smoke".into(),
            r: None,
            m: None,
            sei_connect: None,
            sei_connack: None,
            disc: "wake".into(),
            mode: if cfg!(debug_assertions) { "dev".into() } else { "release".into() },
            log_io: false,
            auth: false,
            burn: 0,
            own_max: None,
            own_rmax: None,
            defer: false,
        }
    }
}

impl Params {
    pub fn to_json(&self) -> Value {
        json!({"a": "reset", "run": self.run, "fam": self.fam, "R": self.r, "M": self.m,
               "sei_connect": self.sei_connect, "sei_connack": self.sei_connack, "disc": self.disc, "log_io": self.log_io, "auth": self.auth, "burn": self.burn, "own_max": self.own_max, "own_rmax": self.own_rmax, "defer": self.defer})
    }
    pub fn from_json(v: &Value) -> Params {
        Params {
            run: v["run"].as_u64().unwrap_or(0) as usize,
            fam: v["fam"].as_str().unwrap_or("script").to_string(),
            r: v["R"].as_u64().map(|x| x as u16),
            m: v["M"].as_u64().map(|x| x as u32),
            sei_connect: v["sei_connect"].as_u64().map(|x| x as u32),
            sei_connack: v["sei_connack"].as_u64().map(|x| x as u32),
            disc: v["disc"].as_str().unwrap_or("wake").to_string(),
            log_io: v["log_io"].as_bool().unwrap_or(false),
            auth: v["auth"].as_bool().unwrap_or(false),
            burn: v["burn"].as_u64().unwrap_or(0) as u32,
            own_max: v["own_max"].as_u64().map(|x| x as u32),
            own_rmax: v["own_rmax"].as_u64().map(|x| x as u16),
            defer: v["defer"].as_bool().unwrap_or(false),
            ..Default::default()
        }
    }
}

pub fn connack(p: &Params) -> Pk {
    let mut c = Pk::new(mqtt::CONNACK);
    c.rc = Some(0);
    if let Some(r) = p.r {
        c.props.push(Prop { id: 0x21, v: PV::U16(r) });
    }
    if let Some(m) = p.m {
        c.props.push(Prop { id: 0x27, v: PV::U32(m) });
    }
    if let Some(s) = p.sei_connack {
        c.props.push(Prop { id: 0x11, v: PV::U32(s) });
    }
    c
}

/// Effective session expiry interval after the handshake (CONNACK overrides CONNECT).
pub fn effective_sei(p: &Params) -> u32 {
    p.sei_connack.or(p.sei_connect).unwrap_or(0)
}

pub fn sei_kind(s: u32) -> &'static str {
    if s == 0 {
        "zero"
    } else if s == u32::MAX {
        "never"
    } else {
        "finite"
    }
}

fn handshake(s: &mut Sim, p: &Params) -> bool {
    s.quiet = true;
    let mut spec = json!({"client_id": "pvh"});
    if let Some(x) = p.sei_connect {
        spec["sei"] = json!(x);
    }
    if let Some(x) = p.own_max {
        spec["max_packet"] = json!(x);
    }
    if let Some(x) = p.own_rmax {
        spec["recv_max"] = json!(x);
    }
    if p.auth {
        spec["auth_method"] = json!("m");
        spec["auth_data"] = json!("d");
    }
    s.command(Cmd::Connect(spec));
    s.poll_ctx();
    let mut auth_ok = true;
    if p.auth {
        // the server answers CONNECT with an AUTH challenge; the CONNACK (with the connection's limits) answers authorize()
        let mut ch = Pk::new(mqtt::AUTH);
        ch.rc = Some(0x18);
        ch.props.push(Prop { id: 0x15, v: PV::Str(b"m".to_vec()) });
        ch.props.push(Prop { id: 0x16, v: PV::Bin(b"c".to_vec()) });
        s.inject_packet(&ch, 9);
        let r = s.poll_ctx();
        auth_ok = r.iter().any(|v| v["kind"] == "AuthRsp");
        s.ctx_results.clear();
        s.ctx_returned = false;
        s.command(Cmd::Authorize(json!({"reason": 0x18, "method": "m", "data": "resp"})));
        s.poll_ctx();
    }
    let mut ca = connack(p);
    if p.auth {
        ca.props.push(Prop { id: 0x15, v: PV::Str(b"m".to_vec()) });
    }
    s.inject_packet(&ca, 9);
    let r = s.poll_ctx();
    let ok = auth_ok && r.iter().any(|v| v["kind"] == "ConnectRsp");
    s.wire.packets.clear();
    s.wire.raw.clear();
    s.ctx_results.clear();
    s.ctx_returned = false;
    s.command(Cmd::Run);
    s.quiet = false;
    ok
}

/// Consumes `n` packet identifiers with complete, untraced UNSUBSCRIBE exchanges, so that the traced part of the run works
/// with identifiers beyond one byte / near the wrap (nothing of these exchanges is left behind in the client).
fn burn(s: &mut Sim, n: u32) {
    s.quiet = true;
    let k = 9_000_000usize;
    for _ in 0..n {
        s.call(k, 0, &json!({"kind": "unsub", "filters": [{"f": "burn"}]}));
        s.poll_op(k);
        s.poll_ctx();
        let id = s.wire.packets.last().and_then(|p| p.id).unwrap_or(0);
        let mut a = Pk::new(mqtt::UNSUBACK);
        a.id = Some(id);
        a.rcs = vec![0];
        s.inject_packet(&a, 9);
        s.poll_ctx();
        s.poll_op(k);
        s.forget_op(k);
        s.wire.packets.clear();
        s.wire.raw.clear();
    }
    s.ctx_results.clear();
    s.quiet = false;
}

/// New client, connected and with `run()` started (not yet polled). The handshake itself is
/// not traced; the `reset` line carries its parameters.
pub fn start(p: &Params) -> Sim {
    let mut s = Sim::new();
    s.log_io = p.log_io;
    s.pipe.0.lock().unwrap().log_io = p.log_io;
    let ok = if p.defer { true } else { handshake(&mut s, p) };
    if ok && p.burn > 0 && !p.defer {
        burn(&mut s, p.burn);
    }
    let sei = effective_sei(p);
    s.emit(json!({
        "e": "reset", "run": p.run, "fam": p.fam, "R": p.r.unwrap_or(65535), "M": p.m.unwrap_or(0).min(i32::MAX as u32),
        "sei": if sei == u32::MAX { 0 } else { sei }, "seik": sei_kind(sei), "disc": p.disc, "mode": p.mode, "ok": ok as u8, "recon": 0,
    }));
    s
}

pub fn ack(t: u8, id: u16, rc: u8) -> Pk {
    let mut a = Pk::new(t);
    if t == mqtt::PUBREL {
        a.flags = 2;
    }
    a.id = Some(id);
    a.rc = Some(rc);
    a
}

fn props_from_json(v: &Value) -> Vec<Prop> {
    // [[id, value] ...] where value is int, string/fill, or [k, v] for a pair
    let mut out = vec![];
    if let Some(a) = v.as_array() {
        for p in a {
            let id = p[0].as_u64().unwrap_or(0) as u8;
            let pv = match mqtt::prop_kind(id) {
                Some('b') => PV::Byte(p[1].as_u64().unwrap_or(0) as u8),
                Some('w') => PV::U16(p[1].as_u64().unwrap_or(0) as u16),
                Some('d') => PV::U32(p[1].as_u64().unwrap_or(0) as u32),
                Some('v') => PV::Vbi(p[1].as_u64().unwrap_or(0) as u32),
                Some('s') => PV::Str(opts::sval(&p[1]).unwrap_or_default()),
                Some('x') => PV::Bin(opts::bval(&p[1]).unwrap_or_default()),
                Some('p') => PV::Pair(opts::sval(&p[1]).unwrap_or_default(), opts::sval(&p[2]).unwrap_or_default()),
                _ => continue,
            };
            out.push(Prop { id, v: pv });
        }
    }
    out
}

/// Builds a server packet from its JSON description; symbolic references (`{"op": k}` for a packet
/// identifier, `{"sub": k}` for a subscription identifier) are resolved against what the client wrote.
pub fn packet_from_json(s: &Sim, v: &Value) -> Option<Pk> {
    let t = mqtt::tcode(v["t"].as_str()?);
    let mut pk = Pk::new(t);
    let id = match &v["id"] {
        Value::Object(o) => Some(*s.wire.op_id.get(&(o.get("op")?.as_u64()? as usize))?),
        Value::Number(n) => Some(n.as_u64()? as u16),
        _ => None,
    };
    pk.id = id;
    pk.rc = v["rc"].as_u64().map(|x| x as u8);
    pk.props = props_from_json(&v["props"]);
    match t {
        mqtt::PUBLISH => {
            let qos = v["qos"].as_u64().unwrap_or(0) as u8;
            pk.flags = (qos << 1) | (v["dup"].as_u64().unwrap_or(0) as u8) << 3 | (v["retain"].as_u64().unwrap_or(0) as u8);
            pk.topic = opts::sval(&v["topic"]).unwrap_or_default();
            pk.payload = opts::bval(&v["payload"]).unwrap_or_default();
            if let Some(a) = v["sids"].as_array() {
                for sid in a {
                    let n = match sid {
                        Value::Object(o) => *s.wire.op_sid.get(&(o.get("sub")?.as_u64()? as usize))?,
                        Value::Number(n) => n.as_u64()? as u32,
                        _ => continue,
                    };
                    pk.props.push(Prop { id: 0x0b, v: PV::Vbi(n) });
                }
            }
            if qos == 0 {
                pk.id = None;
            }
        }
        mqtt::PUBREL => pk.flags = 2,
        mqtt::SUBACK | mqtt::UNSUBACK => {
            pk.rcs = v["rcs"].as_array().map(|a| a.iter().map(|x| x.as_u64().unwrap_or(0) as u8).collect()).unwrap_or_default();
        }
        mqtt::CONNACK => {
            pk.session_present = v["sp"].as_u64().unwrap_or(0) != 0;
        }
        _ => {}
    }
    Some(pk)
}

fn task_of(v: &Value) -> Option<Task> {
    match v["t"].as_str()? {
        "ctx" => Some(Task::Ctx),
        "op" => Some(Task::Op(v["k"].as_u64()? as usize)),
        "st" => Some(Task::St(v["k"].as_u64()? as usize)),
        _ => None,
    }
}

pub fn settle(s: &mut Sim, rng: &mut StdRng, sweep: bool) {
    let mut polls = 0;
    for _round in 0..4 {
        loop {
            let mut w = s.woken();
            if w.is_empty() {
                break;
            }
            // order among the woken tasks: a pseudo-random permutation that depends only on the position in
            // the script (not on how many polls happened before), so that a script replayed with extra
            // spurious polls schedules the woken tasks identically
            let salt = s.step_no.wrapping_mul(0x9e37_79b9_7f4a_7c15).wrapping_add(polls as u64).wrapping_add(s.sched_seed);
            w.sort_by_key(|t| {
                let id = match t {
                    Task::Ctx => 0u64,
                    Task::Op(k) => 2 * (*k as u64) + 1,
                    Task::St(k) => 2 * (*k as u64) + 2,
                };
                let mut x = id.wrapping_add(salt).wrapping_mul(0xbf58_476d_1ce4_e5b9);
                x ^= x >> 29;
                x = x.wrapping_mul(0x94d0_49bb_1331_11eb);
                x ^ (x >> 32)
            });
            let _ = &rng;
            for t in w {
                if s.is_woken(&t) {
                    // (polls that get somewhere - an item yielded, an operation finished, something written - do not count
                    // towards the guard against tasks that keep waking themselves without progress)
                    let before = (s.items.values().map(|v| v.len()).sum::<usize>(), s.op_results.len(), s.wire.n_written, s.ctx_results.len());
                    s.poll_task(&t);
                    let after = (s.items.values().map(|v| v.len()).sum::<usize>(), s.op_results.len(), s.wire.n_written, s.ctx_results.len());
                    if before == after {
                        polls += 1;
                    }
                }
            }
            if polls > 3000 {
                s.emit(json!({"e": "livelock"}));
                return;
            }
        }
        if !sweep {
            break;
        }
        // every live task once more, without a wake-up
        let live = s.live();
        for t in live {
            if !s.is_woken(&t) {
                s.poll_task(&t);
            }
        }
        if s.woken().is_empty() {
            break;
        }
    }
    let unread = if s.ctx_alive() { s.pipe.unread() } else { 0 };
    s.emit(json!({"e": "quiescent", "unread": unread}));
}

/// Executes one script step. Returns false if the step could not be applied (it is then
/// recorded as a `note` line and has no effect).
pub fn exec_step(s: &mut Sim, rng: &mut StdRng, st: &Value) -> bool {
    let a = st["a"].as_str().unwrap_or("");
    s.step_no += 1;
    let ok = match a {
        "call" => s.call(st["op"].as_u64().unwrap_or(0) as usize, st["h"].as_u64().unwrap_or(0) as usize, &st["spec"]),
        "poll" => match task_of(st) {
            Some(Task::Ctx) => {
                if s.ctx_alive() {
                    s.poll_ctx();
                    true
                } else {
                    false
                }
            }
            Some(Task::Op(k)) => s.poll_op(k).is_some(),
            Some(Task::St(k)) => s.poll_stream(k).is_some(),
            None => false,
        },
        "drop" => {
            let k = st["k"].as_u64().unwrap_or(0) as usize;
            match st["t"].as_str().unwrap_or("") {
                "op" => {
                    let l = s.op_live(k);
                    s.drop_op(k);
                    l
                }
                "st" => {
                    let l = s.stream_live(k);
                    s.drop_stream(k);
                    l
                }
                "h" => {
                    s.drop_handle(k);
                    true
                }
                "ctx" => {
                    let l = s.ctx_alive();
                    if l {
                        s.drop_ctx();
                    }
                    l
                }
                _ => false,
            }
        }
        "clone" => s.clone_handle(st["from"].as_u64().unwrap_or(0) as usize).is_some(),
        "pkt" => match packet_from_json(s, &st["pk"]) {
            Some(pk) => {
                let form = st["form"].as_u64().unwrap_or(9) as u8;
                let b = mqtt::encode(&pk, form);
                let split: Vec<usize> = st["split"].as_array().map(|a| a.iter().map(|x| x.as_u64().unwrap_or(1) as usize).collect()).unwrap_or_default();
                let abs = match mqtt::decode(&b) {
                    Ok(d) => d.abs(),
                    Err(_) => {
                        let mut a = crate::sim::empty_abs();
                        a["t"] = json!("GARBAGE");
                        a
                    }
                };
                s.inject_bytes(&b, &split, vec![abs]);
                true
            }
            None => false,
        },
        "frag" => match packet_from_json(s, &st["pk"]) {
            // one server packet in two reads with `spur` polls of the context in between that no wake-up asked for (the first
            // poll after the first fragment is the woken one): the fragment waits in the framer however often it is polled
            Some(pk) => {
                let b = mqtt::encode(&pk, st["form"].as_u64().unwrap_or(9) as u8);
                let at = (st["at"].as_u64().unwrap_or(1) as usize).clamp(1, b.len().saturating_sub(1).max(1));
                let abs = mqtt::decode(&b).map(|d| d.abs()).unwrap_or(crate::sim::empty_abs());
                s.inject_bytes(&b[..at], &[], vec![]);
                for _ in 0..(1 + st["spur"].as_u64().unwrap_or(0)) {
                    if s.ctx_alive() {
                        s.poll_ctx();
                    }
                }
                s.inject_bytes(&b[at..], &[], vec![abs]);
                true
            }
            None => false,
        },
        "pkts" => {
            // several server packets as one byte stream, cut at the given offsets (any alignment against packet boundaries)
            let mut all: Vec<u8> = vec![];
            let mut ends: Vec<(usize, Value)> = vec![];
            let mut okk = true;
            for pj in st["pks"].as_array().cloned().unwrap_or_default() {
                match packet_from_json(s, &pj) {
                    Some(pk) => {
                        let b = mqtt::encode(&pk, pj["form"].as_u64().unwrap_or(9) as u8);
                        all.extend_from_slice(&b);
                        let abs = mqtt::decode(&b).map(|d| d.abs()).unwrap_or(crate::sim::empty_abs());
                        ends.push((all.len(), abs));
                    }
                    None => okk = false,
                }
            }
            if okk && !all.is_empty() {
                let mut cuts: Vec<usize> = st["cuts"].as_array().map(|a| a.iter().filter_map(|x| x.as_u64()).map(|x| x as usize).collect()).unwrap_or_default();
                cuts.retain(|c| *c > 0 && *c < all.len());
                cuts.sort();
                cuts.dedup();
                cuts.push(all.len());
                let mut prev = 0;
                for c in cuts {
                    let done: Vec<Value> = ends.iter().filter(|(e, _)| *e > prev && *e <= c).map(|(_, a)| a.clone()).collect();
                    s.inject_bytes(&all[prev..c], &[], done);
                    prev = c;
                }
            }
            okk
        }
        "raw" => {
            // bytes given literally; `pks` (optional) = abstract records of the packets they complete
            let h = st["hex"].as_str().unwrap_or("");
            let b: Vec<u8> = (0..h.len() / 2).filter_map(|i| u8::from_str_radix(&h[2 * i..2 * i + 2], 16).ok()).collect();
            let pks = st["pks"].as_array().cloned().unwrap_or_default();
            s.inject_bytes(&b, &[], pks);
            true
        }
        "eof" => {
            s.eof();
            true
        }
        "rderr" => {
            s.rderr();
            true
        }
        "wrmode" => {
            let m = match st["m"].as_str().unwrap_or("accept") {
                "block" => WrMode::Block,
                "budget" => WrMode::Budget(st["k"].as_u64().unwrap_or(1) as usize),
                "err" => WrMode::Err,
                "zero" => WrMode::Zero,
                "max" => WrMode::Max(st["k"].as_u64().unwrap_or(1) as usize),
                _ => WrMode::Accept,
            };
            s.wr_mode(m);
            true
        }
        "settle" => {
            settle(s, rng, st["sweep"].as_bool().unwrap_or(true));
            true
        }
        "autoack" => {
            // the broker acknowledges (successfully) everything it has received on this connection so far
            let todo: Vec<Pk> = s.wire.packets[s.wire.acked..].to_vec();
            s.wire.acked = s.wire.packets.len();
            for pk in todo {
                let a = match pk.t {
                    mqtt::PUBLISH if pk.qos() == 1 => Some(ack(mqtt::PUBACK, pk.id.unwrap_or(0), 0)),
                    mqtt::PUBLISH if pk.qos() == 2 => Some(ack(mqtt::PUBREC, pk.id.unwrap_or(0), 0)),
                    mqtt::PUBREL => Some(ack(mqtt::PUBCOMP, pk.id.unwrap_or(0), 0)),
                    mqtt::PINGREQ => Some(Pk::new(mqtt::PINGRESP)),
                    _ => None,
                };
                if let Some(a) = a {
                    s.inject_packet(&a, 9);
                }
            }
            true
        }
        "markdisc" => {
            let secs = st["secs"].as_u64().unwrap_or(0);
            s.command(Cmd::MarkDisc(secs));
            s.quiet = true;
            s.poll_ctx();
            s.quiet = false;
            s.emit(json!({"e": "markdisc", "secs": secs}));
            true
        }
        "closemode" => {
            let m = st["m"].as_u64().unwrap_or(0) as u8;
            s.pipe.0.lock().unwrap().close_mode = m;
            s.emit(json!({"e": "note", "closemode": m}));
            true
        }
        "handshake" => {
            // the deferred handshake of a run whose `reset` carried "defer" (untraced like the ordinary one; a failure is a note
            // line without specification action, i.e. a tool-level stop, since the run cannot go on)
            let p = Params::from_json(st);
            let ok = handshake(s, &p);
            if !ok {
                s.emit(json!({"e": "reconnect", "R": p.r.unwrap_or(65535), "M": p.m.unwrap_or(0), "sei": 0, "seik": "zero", "ok": 0}));
            }
            ok
        }
        "burn0" => {
            // n complete, untraced QoS 0 publishes (they carry no packet identifier and must not consume any)
            let n = st["n"].as_u64().unwrap_or(0);
            s.quiet = true;
            let k = 9_000_002usize;
            for i in 0..n {
                s.call(k, 0, &json!({"kind": "pub", "qos": 0, "topic": "b", "payload": "x"}));
                s.poll_op(k);
                if i % 64 == 63 || i + 1 == n {
                    s.poll_ctx();
                }
                s.poll_op(k);
                s.forget_op(k);
            }
            s.poll_ctx();
            s.wire.packets.clear();
            s.wire.raw.clear();
            s.quiet = false;
            s.emit(json!({"e": "note", "burn0": n}));
            true
        }
        "burnsub" => {
            // n complete, untraced subscribe() calls (SUBACK granted, stream dropped at once)
            let n = st["n"].as_u64().unwrap_or(0);
            s.quiet = true;
            let k = 9_000_001usize;
            for _ in 0..n {
                s.call(k, 0, &json!({"kind": "sub", "filters": [{"f": "burn", "qos": 0}]}));
                s.poll_op(k);
                s.poll_ctx();
                let id = s.wire.packets.last().and_then(|p| p.id).unwrap_or(0);
                let mut a = Pk::new(mqtt::SUBACK);
                a.id = Some(id);
                a.rcs = vec![0];
                s.inject_packet(&a, 9);
                s.poll_ctx();
                s.poll_op(k);
                s.drop_stream(k);
                s.forget_op(k);
                s.wire.packets.clear();
                s.wire.raw.clear();
            }
            s.quiet = false;
            s.emit(json!({"e": "note", "burnsub": n}));
            true
        }
        "reconnect" => {
            let p = Params::from_json(st);
            s.new_pipe();
            let ok = handshake(s, &p);
            let sei = effective_sei(&p);
            s.wire.acked = 0;
            s.emit(json!({"e": "reconnect", "R": p.r.unwrap_or(65535), "M": p.m.unwrap_or(0).min(i32::MAX as u32),
                "sei": if sei == u32::MAX { 0 } else { sei }, "seik": sei_kind(sei), "ok": ok as u8}));
            true
        }
        _ => false,
    };
    if !ok {
        s.emit(json!({"e": "note", "skipped": st}));
    }
    ok
}

/// Runs a whole script (first step must be `reset`). Returns the trace lines.
pub fn run_script(steps: &[Value], seed: u64) -> Vec<String> {
    let mut rng = StdRng::seed_from_u64(seed);
    let p = Params::from_json(&steps[0]);
    let mut s = start(&p);
    s.sched_seed = seed;
    for st in &steps[1..] {
        exec_step(&mut s, &mut rng, st);
    }
    s.trace.clone()
}

// ---------------------------------------------------------------------------------------------
// random walks

pub const PUB_REASONS: [u8; 9] = [0x00, 0x10, 0x80, 0x83, 0x87, 0x90, 0x91, 0x97, 0x99];
const PUBCOMP_REASONS: [u8; 2] = [0x00, 0x92];
pub const SUBACK_REASONS: [u8; 12] = [0, 1, 2, 0x80, 0x83, 0x87, 0x8f, 0x91, 0x97, 0x9e, 0xa1, 0xa2];
pub const UNSUBACK_REASONS: [u8; 7] = [0, 0x11, 0x80, 0x83, 0x87, 0x8f, 0x91];
pub const DISCONNECT_REASONS: [u8; 29] = [
    0x00, 0x04, 0x80, 0x81, 0x82, 0x83, 0x87, 0x89, 0x8b, 0x8d, 0x8e, 0x8f, 0x90, 0x93, 0x94, 0x95, 0x96, 0x97, 0x98,
    0x99, 0x9a, 0x9b, 0x9c, 0x9d, 0x9e, 0x9f, 0xa0, 0xa1, 0xa2,
];

#[derive(Clone, Debug)]
pub struct WalkCfg {
    pub profile: String,
    pub steps: usize,
    pub max_ops: usize,
    pub w_call: u32,
    pub w_poll: u32,
    pub w_ack: u32,
    pub w_inbound: u32,
    pub w_cancel: u32,
    pub w_dropst: u32,
    pub w_handle: u32,
    pub w_wr: u32,
    pub w_settle: u32,
    pub w_spur: u32,
    pub kinds: Vec<(&'static str, u32)>,
    pub fail_pct: u32,
    pub content_pct: u32,
    pub endings: Vec<&'static str>,
    pub unknown_sid_pct: u32,
    pub nosid_pct: u32,
    pub multi_sid_pct: u32,
    pub redeliver_pct: u32,
    pub unsolicited_pct: u32,
    pub chunk_pct: u32,
    pub burst_pct: u32,
    /// writer modes that return Pending (block, budget) may be chosen
    pub block_ok: bool,
}

pub fn profile(name: &str) -> WalkCfg {
    let base = WalkCfg {
        profile: name.to_string(),
        steps: 60,
        max_ops: 6,
        w_call: 20,
        w_poll: 30,
        w_ack: 25,
        w_inbound: 10,
        w_cancel: 0,
        w_dropst: 0,
        w_handle: 2,
        w_wr: 0,
        w_settle: 8,
        w_spur: 0,
        kinds: vec![("pub0", 2), ("pub1", 5), ("pub2", 5), ("sub", 3), ("unsub", 2), ("ping", 2)],
        fail_pct: 30,
        content_pct: 30,
        endings: vec!["none"],
        unknown_sid_pct: 10,
        nosid_pct: 10,
        multi_sid_pct: 0,
        redeliver_pct: 20,
        unsolicited_pct: 0,
        chunk_pct: 0,
        burst_pct: 0,
        block_ok: true,
    };
    match name {
        "ops" => base,
        "quota" => WalkCfg { kinds: vec![("pub0", 1), ("pub1", 6), ("pub2", 6), ("ping", 1), ("unsub", 1), ("sub", 1)], w_inbound: 0, max_ops: 8, fail_pct: 40, ..base },
        "inbound" => WalkCfg {
            w_call: 10, w_ack: 15, w_inbound: 40, w_dropst: 3, kinds: vec![("sub", 6), ("unsub", 2), ("pub1", 1), ("ping", 1)],
            multi_sid_pct: 10, ..base
        },
        "cancel" => WalkCfg {
            w_cancel: 10, w_dropst: 8, w_inbound: 25, multi_sid_pct: 35, nosid_pct: 3, unknown_sid_pct: 3,
            kinds: vec![("pub0", 1), ("pub1", 4), ("pub2", 4), ("sub", 7), ("unsub", 1), ("ping", 2)], ..base
        },
        "life" => WalkCfg {
            steps: 25,
            endings: vec!["disc", "srvdisc0", "srvdisc", "eof", "rderr", "handles", "wrerr", "ctxdrop"],
            w_cancel: 3, ..base
        },
        "wake" => WalkCfg { w_wr: 6, w_spur: 10, w_inbound: 12, ..base },
        "wakechunk" => WalkCfg { w_wr: 4, w_spur: 6, w_inbound: 20, w_ack: 30, chunk_pct: 60, burst_pct: 50, ..base },
        "mixed" => WalkCfg {
            w_cancel: 4, w_dropst: 2, w_wr: 3, w_inbound: 15, multi_sid_pct: 5, unsolicited_pct: 3,
            endings: vec!["none", "disc", "srvdisc", "eof", "handles", "ctxdrop"], ..base
        },
        _ => base,
    }
}

struct Broker {
    seen: usize,
    pending: Vec<(u8, u16, usize)>, // (ack type, id, nfilters)
    pings: usize,
    q2_open: Vec<(u16, Value)>, // inbound QoS 2 publishes not yet released: (id, packet json)
    next_in: usize,
    last_q1: Option<Value>, // the last inbound QoS 1 publish (a broker may send it again with DUP set: delivered again)
}

fn choose<'a, T>(rng: &mut StdRng, v: &'a [T]) -> &'a T {
    &v[rng.gen_range(0..v.len())]
}

fn weighted<'a>(rng: &mut StdRng, v: &[(&'a str, u32)]) -> &'a str {
    let tot: u32 = v.iter().map(|x| x.1).sum();
    let mut r = rng.gen_range(0..tot.max(1));
    for (n, w) in v {
        if r < *w {
            return n;
        }
        r -= w;
    }
    v[0].0
}

fn ack_content(rng: &mut StdRng, pct: u32) -> Value {
    let mut props = vec![];
    if rng.gen_range(0..100) < pct {
        props.push(json!([0x1f, format!("why{}", rng.gen_range(0..100))]));
    }
    if rng.gen_range(0..100) < pct {
        for i in 0..rng.gen_range(1..3) {
            props.push(json!([0x26, format!("k{}", i), format!("v{}", rng.gen_range(0..50))]));
        }
        // an empty value (or an empty key) is legal, also as the very last bytes of the property section
        match rng.gen_range(0..4) {
            0 => props.push(json!([0x26, "detail", ""])),
            1 => props.push(json!([0x26, "", "v"])),
            _ => {}
        }
    }
    Value::Array(props)
}

/// One random run. Returns (script, trace).
pub fn walk(p: &Params, cfg: &WalkCfg, seed: u64) -> (Vec<Value>, Vec<String>) {
    let mut rng = StdRng::seed_from_u64(seed);
    let mut script = vec![p.to_json()];
    let mut s = start(p);
    s.sched_seed = seed;
    let mut b = Broker { seen: 0, pending: vec![], pings: 0, q2_open: vec![], next_in: 0, last_q1: None };
    let mut next_op = 1usize;
    let sweep_every = p.disc == "sweep";
    let chunk_pct = cfg.chunk_pct;
    let burst_pct = cfg.burst_pct;
    let held_cell: std::cell::RefCell<Vec<Value>> = std::cell::RefCell::new(vec![]);
    let flush_held = |s: &mut Sim, rng: &mut StdRng, script: &mut Vec<Value>| {
        let pks: Vec<Value> = std::mem::take(&mut *held_cell.borrow_mut());
        if pks.is_empty() {
            return;
        }
        let mut ends = vec![];
        let mut off = 0usize;
        for pj in &pks {
            off += packet_from_json(s, pj).map(|p| mqtt::encode(&p, 9).len()).unwrap_or(0);
            ends.push(off);
        }
        let total = off.max(2);
        let b1 = ends[0];
        let cuts: Vec<usize> = match rng.gen_range(0..7) {
            0 => vec![],
            1 => vec![b1 + 1],
            2 => vec![b1.saturating_sub(1)],
            3 => ends.iter().map(|e| e + 1).collect(),
            4 => ends.iter().map(|e| e + 2).collect(),
            5 => (1..total).collect(),
            _ => (0..rng.gen_range(1..4)).map(|_| rng.gen_range(1..total)).collect(),
        };
        let st = json!({"a": "pkts", "pks": pks, "cuts": cuts});
        exec_step(s, rng, &st);
        script.push(st);
    };
    let do_step = |s: &mut Sim, rng: &mut StdRng, script: &mut Vec<Value>, st: Value| -> bool {
        if st["a"] == "pkt" && burst_pct > 0 && rng.gen_range(0..100) < burst_pct && held_cell.borrow().len() < 3 && st["form"].is_null() {
            held_cell.borrow_mut().push(st["pk"].clone());
            return true;
        }
        flush_held(s, rng, script);
        let st = if st["a"] == "pkt" && chunk_pct > 0 && rng.gen_range(0..100) < chunk_pct {
            // deliver this packet as a chunked burst: cut positions chosen among byte-wise, +-1 around the end, random
            let n = packet_from_json(s, &st["pk"]).map(|p| mqtt::encode(&p, 9).len()).unwrap_or(0);
            let cuts: Vec<usize> = match rng.gen_range(0..4) {
                0 => (1..n).collect(),
                1 => vec![1],
                2 => vec![n.saturating_sub(1)],
                _ => (0..rng.gen_range(1..4)).map(|_| rng.gen_range(1..n.max(2))).collect(),
            };
            json!({"a": "pkts", "pks": [st["pk"].clone()], "cuts": cuts})
        } else {
            st
        };
        let ok = exec_step(s, rng, &st);
        script.push(st);
        ok
    };
    // with chunking enabled a broker packet may be delivered together with the next ones, cut at awkward places
    let mut ended = false;
    for _ in 0..cfg.steps {
        // broker observes the wire
        while b.seen < s.wire.packets.len() {
            let pk = &s.wire.packets[b.seen];
            b.seen += 1;
            match pk.t {
                mqtt::PUBLISH if pk.qos() == 1 => b.pending.push((mqtt::PUBACK, pk.id.unwrap_or(0), 0)),
                mqtt::PUBLISH if pk.qos() == 2 => b.pending.push((mqtt::PUBREC, pk.id.unwrap_or(0), 0)),
                mqtt::PUBREL => b.pending.push((mqtt::PUBCOMP, pk.id.unwrap_or(0), 0)),
                mqtt::SUBSCRIBE => b.pending.push((mqtt::SUBACK, pk.id.unwrap_or(0), pk.filters.len())),
                mqtt::UNSUBSCRIBE => b.pending.push((mqtt::UNSUBACK, pk.id.unwrap_or(0), pk.filters.len())),
                mqtt::PINGREQ => b.pings += 1,
                _ => {}
            }
        }
        let live_ops = s.live_ops();
        let live_sts = s.live_streams();
        let mut menu: Vec<(&str, u32)> = vec![];
        if live_ops.len() < cfg.max_ops && s.handles.iter().any(|h| h.is_some()) {
            menu.push(("call", cfg.w_call));
        }
        if !s.woken().is_empty() {
            menu.push(("poll", cfg.w_poll));
        }
        if !b.pending.is_empty() || b.pings > 0 {
            menu.push(("ack", cfg.w_ack));
        }
        menu.push(("inbound", cfg.w_inbound));
        if !live_ops.is_empty() {
            menu.push(("cancel", cfg.w_cancel));
        }
        if !live_sts.is_empty() {
            menu.push(("dropst", cfg.w_dropst));
        }
        menu.push(("handle", cfg.w_handle));
        menu.push(("wr", cfg.w_wr));
        menu.push(("settle", cfg.w_settle));
        if !s.live().is_empty() {
            menu.push(("spur", cfg.w_spur));
        }
        menu.push(("unsol", cfg.unsolicited_pct));
        let act = weighted(&mut rng, &menu);
        match act {
            "call" => {
                let hs: Vec<usize> = s.handles.iter().enumerate().filter(|(_, h)| h.is_some()).map(|(i, _)| i).collect();
                let h = *choose(&mut rng, &hs);
                let k = next_op;
                next_op += 1;
                let kind = weighted(&mut rng, &cfg.kinds);
                let nup = if rng.gen_range(0..100) < 20 { rng.gen_range(1..3) } else { 0 };
                let ups: Vec<Value> = (0..nup).map(|i| json!([format!("uk{}", i), format!("uv{}", k)])).collect();
                let spec = match kind {
                    "pub0" | "pub1" | "pub2" => {
                        let q = kind.as_bytes()[3] - b'0';
                        let mut sp = json!({"kind": "pub", "qos": q, "topic": format!("t/{}", k),
                            "payload": {"tag": format!("p{}", k), "n": *choose(&mut rng, &[0usize, 1, 5, 20, 100, 130, 300])},
                            "retain": rng.gen_range(0..4) == 0, "ups": ups});
                        if rng.gen_range(0..5) == 0 {
                            sp["ctype"] = json!("text/x");
                        }
                        if rng.gen_range(0..6) == 0 {
                            sp["mei"] = json!(*choose(&mut rng, &[60u64, 0, 16_777_217, 4_294_967_294]));
                        }
                        // the Payload Format Indicator, both values (an explicit 0 is a property like any other)
                        match rng.gen_range(0..8) {
                            0 => sp["pfi"] = json!(false),
                            1 => sp["pfi"] = json!(true),
                            _ => {}
                        }
                        sp
                    }
                    "sub" => {
                        let nf = rng.gen_range(1..3);
                        let fl: Vec<Value> = (0..nf).map(|i| json!({"f": format!("f/{}/{}", k, i), "qos": rng.gen_range(0..3)})).collect();
                        json!({"kind": "sub", "filters": fl, "ups": ups})
                    }
                    "unsub" => json!({"kind": "unsub", "filters": [{"f": format!("f/{}", k)}], "ups": ups}),
                    "ping" => json!({"kind": "ping"}),
                    _ => json!({"kind": "ping"}),
                };
                do_step(&mut s, &mut rng, &mut script, json!({"a": "call", "op": k, "h": h, "spec": spec}));
            }
            "poll" => {
                let w = s.woken();
                let t = choose(&mut rng, &w).clone();
                let st = match t {
                    Task::Ctx => json!({"a": "poll", "t": "ctx"}),
                    Task::Op(k) => json!({"a": "poll", "t": "op", "k": k}),
                    Task::St(k) => json!({"a": "poll", "t": "st", "k": k}),
                };
                do_step(&mut s, &mut rng, &mut script, st);
            }
            "spur" => {
                let l = s.live();
                let t = choose(&mut rng, &l).clone();
                let st = match t {
                    Task::Ctx => json!({"a": "poll", "t": "ctx"}),
                    Task::Op(k) => json!({"a": "poll", "t": "op", "k": k}),
                    Task::St(k) => json!({"a": "poll", "t": "st", "k": k}),
                };
                do_step(&mut s, &mut rng, &mut script, st);
            }
            "ack" => {
                if b.pings > 0 && (b.pending.is_empty() || rng.gen_range(0..4) == 0) {
                    b.pings -= 1;
                    do_step(&mut s, &mut rng, &mut script, json!({"a": "pkt", "pk": {"t": "PINGRESP"}}));
                } else {
                    let i = rng.gen_range(0..b.pending.len());
                    let (t, id, nf) = b.pending.remove(i);
                    let fail = rng.gen_range(0..100) < cfg.fail_pct;
                    let props = ack_content(&mut rng, cfg.content_pct);
                    let pk = match t {
                        mqtt::PUBACK | mqtt::PUBREC => {
                            let rc = if fail { *choose(&mut rng, &PUB_REASONS[2..]) } else { *choose(&mut rng, &PUB_REASONS[..2]) };
                            json!({"t": mqtt::tname(t), "id": id, "rc": rc, "props": props})
                        }
                        mqtt::PUBCOMP => {
                            let rc = if fail { PUBCOMP_REASONS[1] } else { 0 };
                            json!({"t": "PUBCOMP", "id": id, "rc": rc, "props": props})
                        }
                        mqtt::SUBACK => {
                            let rcs: Vec<u8> = (0..nf).map(|_| *choose(&mut rng, &SUBACK_REASONS)).collect();
                            json!({"t": "SUBACK", "id": id, "rcs": rcs, "props": props})
                        }
                        _ => {
                            let rcs: Vec<u8> = (0..nf).map(|_| *choose(&mut rng, &UNSUBACK_REASONS)).collect();
                            json!({"t": "UNSUBACK", "id": id, "rcs": rcs, "props": props})
                        }
                    };
                    // wire form: an acknowledgement without properties may omit the Property Length, and with reason 0x00 the
                    // reason as well (MQTT 5 3.4.2.1) - the outcome reported to the caller must not depend on the form
                    let mut st = json!({"a": "pkt", "pk": pk});
                    if matches!(t, mqtt::PUBACK | mqtt::PUBREC | mqtt::PUBCOMP) && st["pk"]["props"].as_array().map(|a| a.is_empty()).unwrap_or(true) {
                        let rc0 = st["pk"]["rc"].as_u64().unwrap_or(0) == 0;
                        match rng.gen_range(0..3) {
                            0 => st["form"] = json!(3),
                            1 if rc0 => st["form"] = json!(2),
                            _ => {}
                        }
                    }
                    do_step(&mut s, &mut rng, &mut script, st);
                }
            }
            "unsol" => {
                // acknowledgement for an identifier nobody is waiting for
                let t = *choose(&mut rng, &["PUBACK", "PUBREC", "PUBCOMP", "SUBACK", "UNSUBACK", "PINGRESP"]);
                let pk = if t == "SUBACK" || t == "UNSUBACK" {
                    json!({"t": t, "id": 60000 + rng.gen_range(0..100), "rcs": [0]})
                } else if t == "PINGRESP" {
                    json!({"t": t})
                } else {
                    json!({"t": t, "id": 60000 + rng.gen_range(0..100), "rc": 0})
                };
                do_step(&mut s, &mut rng, &mut script, json!({"a": "pkt", "pk": pk}));
            }
            "inbound" => {
                let r = rng.gen_range(0..100);
                if !b.q2_open.is_empty() && r < cfg.redeliver_pct {
                    // re-delivery of an unreleased QoS 2 message (same content, DUP set)
                    let (_, pkj) = choose(&mut rng, &b.q2_open).clone();
                    let mut pkj = pkj;
                    pkj["dup"] = json!(1);
                    // a message first sent with its topic name AND a Topic Alias may come again with the alias alone
                    let has_alias = pkj["props"].as_array().map(|a| a.iter().any(|p| p[0] == 0x23)).unwrap_or(false);
                    if has_alias && pkj["topic"].as_str().map(|t| !t.is_empty()).unwrap_or(false) && rng.gen_range(0..2) == 0 {
                        pkj["topic"] = json!("");
                    }
                    do_step(&mut s, &mut rng, &mut script, json!({"a": "pkt", "pk": pkj}));
                } else if !b.q2_open.is_empty() && r < cfg.redeliver_pct + 30 {
                    let i = rng.gen_range(0..b.q2_open.len());
                    let (id, _) = b.q2_open.remove(i);
                    // a PUBREL releases the identifier whatever its reason code (0x92 is the only other one) and form
                    let (rc, form) = *choose(&mut rng, &[(0u8, 2u8), (0, 2), (0, 3), (0, 9), (0x92, 3), (0x92, 9)]);
                    do_step(&mut s, &mut rng, &mut script, json!({"a": "pkt", "pk": {"t": "PUBREL", "id": id, "rc": rc}, "form": form}));
                } else if b.last_q1.is_some() && r >= 92 {
                    // QoS 1 re-delivery: same identifier and content with DUP set, directly after the first copy or later;
                    // at-least-once: it is a PUBLISH like any other (acknowledged, yielded)
                    let mut pkj = b.last_q1.clone().unwrap();
                    pkj["dup"] = json!(1);
                    do_step(&mut s, &mut rng, &mut script, json!({"a": "pkt", "pk": pkj}));
                } else {
                    let qos = rng.gen_range(0..3);
                    let subs: Vec<usize> = s.wire.op_sid.keys().cloned().collect();
                    let mut sids: Vec<Value> = vec![];
                    let x = rng.gen_range(0..100);
                    if x < cfg.nosid_pct || (subs.is_empty() && x < 50) {
                    } else if x < cfg.nosid_pct + cfg.unknown_sid_pct || subs.is_empty() {
                        sids.push(json!(900 + rng.gen_range(0..5)));
                    } else {
                        let first = *choose(&mut rng, &subs);
                        sids.push(json!({"sub": first}));
                        if subs.len() > 1 && rng.gen_range(0..100) < cfg.multi_sid_pct {
                            let others: Vec<usize> = subs.iter().cloned().filter(|x| *x != first).collect();
                            sids.push(json!({"sub": *choose(&mut rng, &others)}));
                        }
                    }
                    b.next_in += 1;
                    let used: Vec<u16> = b.q2_open.iter().map(|x| x.0).collect();
                    let mut id = *choose(&mut rng, &[1u16, 2, 3, 255, 256, 65535]);
                    while used.contains(&id) {
                        id = id.wrapping_add(7).max(1);
                    }
                    let mut props = vec![];
                    if rng.gen_range(0..4) == 0 {
                        props.push(json!([0x26, "ik", format!("iv{}", b.next_in)]));
                    }
                    if rng.gen_range(0..5) == 0 {
                        props.push(json!([0x03, "ct"]));
                    }
                    // Payload Format Indicator, forwarded by the server as the publisher set it: the payloads here are binary
                    // whatever it says, and the client delivers (and acknowledges) them all the same
                    match rng.gen_range(0..8) {
                        0 => props.push(json!([0x01, 1])),
                        1 => props.push(json!([0x01, 0])),
                        _ => {}
                    }
                    // properties long enough for a two-byte (rarely three-byte) Property Length
                    match rng.gen_range(0..40) {
                        0 | 1 => props.push(json!([0x26, "long", "v".repeat(*choose(&mut rng, &[120usize, 121, 122, 123, 130, 200, 300]))])),
                        2 => props.push(json!([0x09, "c".repeat(*choose(&mut rng, &[125usize, 126, 16381, 16390]))])),
                        _ => {}
                    }
                    // a Topic Alias standing in for the Topic Name (zero-length name)
                    let aliased = rng.gen_range(0..25) == 0;
                    if aliased {
                        props.push(json!([0x23, 1 + rng.gen_range(0..3)]));
                    } else if qos == 2 && rng.gen_range(0..3) == 0 {
                        // establishes an alias: topic name and Topic Alias together
                        props.push(json!([0x23, 4 + rng.gen_range(0..3)]));
                    }
                    let pkj = json!({"t": "PUBLISH", "qos": qos, "id": id, "dup": 0, "retain": (rng.gen_range(0..5) == 0) as u8,
                        "topic": if aliased { String::new() } else { format!("in/{}", b.next_in) }, "payload": {"tag": format!("i{}", b.next_in), "n": *choose(&mut rng, &[0usize, 3, 40, 200])},
                        "sids": sids, "props": props});
                    if qos == 2 {
                        b.q2_open.push((id, pkj.clone()));
                    }
                    if qos == 1 {
                        b.last_q1 = Some(pkj.clone());
                    }
                    do_step(&mut s, &mut rng, &mut script, json!({"a": "pkt", "pk": pkj}));
                }
            }
            "cancel" => {
                let k = *choose(&mut rng, &live_ops);
                do_step(&mut s, &mut rng, &mut script, json!({"a": "drop", "t": "op", "k": k}));
            }
            "dropst" => {
                let k = *choose(&mut rng, &live_sts);
                do_step(&mut s, &mut rng, &mut script, json!({"a": "drop", "t": "st", "k": k}));
            }
            "handle" => {
                let hs: Vec<usize> = s.handles.iter().enumerate().filter(|(_, h)| h.is_some()).map(|(i, _)| i).collect();
                if hs.len() < 3 && !hs.is_empty() {
                    let h = *choose(&mut rng, &hs);
                    do_step(&mut s, &mut rng, &mut script, json!({"a": "clone", "from": h}));
                } else if hs.len() > 1 {
                    let h = *choose(&mut rng, &hs);
                    do_step(&mut s, &mut rng, &mut script, json!({"a": "drop", "t": "h", "k": h}));
                }
            }
            "wr" => {
                let m = if cfg.block_ok { *choose(&mut rng, &["block", "accept", "accept", "max", "budget"]) } else { *choose(&mut rng, &["accept", "max", "max"]) };
                let k = if m == "budget" { rng.gen_range(1..40) } else { rng.gen_range(1..4) };
                do_step(&mut s, &mut rng, &mut script, json!({"a": "wrmode", "m": m, "k": k}));
            }
            "settle" => {
                do_step(&mut s, &mut rng, &mut script, json!({"a": "settle", "sweep": true}));
            }
            _ => {}
        }
        if sweep_every {
            do_step(&mut s, &mut rng, &mut script, json!({"a": "settle", "sweep": true}));
        }
        if s.ctx_returned || s.ctx_panicked {
            ended = true;
            break;
        }
    }
    // ending
    flush_held(&mut s, &mut rng, &mut script);
    do_step(&mut s, &mut rng, &mut script, json!({"a": "wrmode", "m": "accept", "k": 0}));
    do_step(&mut s, &mut rng, &mut script, json!({"a": "settle", "sweep": true}));
    if !ended {
        let e = *choose(&mut rng, &cfg.endings);
        match e {
            "disc" => {
                let hs: Vec<usize> = s.handles.iter().enumerate().filter(|(_, h)| h.is_some()).map(|(i, _)| i).collect();
                if let Some(h) = hs.first() {
                    let rc = *choose(&mut rng, &[0u8, 0, 4, 0x80]);
                    let mut spec = json!({"kind": "disc"});
                    if rc != 0 || rng.gen_range(0..3) == 0 {
                        spec["reason"] = json!(rc);
                    }
                    if rng.gen_range(0..3) == 0 {
                        spec["rs"] = json!("bye");
                    }
                    do_step(&mut s, &mut rng, &mut script, json!({"a": "call", "op": next_op, "h": h, "spec": spec}));
                }
            }
            "srvdisc0" => {
                let form = *choose(&mut rng, &[0u8, 1, 2]);
                do_step(&mut s, &mut rng, &mut script, json!({"a": "pkt", "pk": {"t": "DISCONNECT", "rc": 0}, "form": form}));
            }
            "srvdisc" => {
                let rc = *choose(&mut rng, &DISCONNECT_REASONS[2..]);
                let props = ack_content(&mut rng, 50);
                // without properties the Property Length may be omitted (remaining length 1)
                let form = if props.as_array().map(|a| a.is_empty()).unwrap_or(true) && rng.gen_range(0..2) == 0 { 1 } else { 2 };
                do_step(&mut s, &mut rng, &mut script, json!({"a": "pkt", "pk": {"t": "DISCONNECT", "rc": rc, "props": props}, "form": form}));
            }
            "eof" => {
                do_step(&mut s, &mut rng, &mut script, json!({"a": "eof"}));
            }
            "rderr" => {
                do_step(&mut s, &mut rng, &mut script, json!({"a": "rderr"}));
            }
            "wrerr" => {
                do_step(&mut s, &mut rng, &mut script, json!({"a": "wrmode", "m": "err", "k": 0}));
                let hs: Vec<usize> = s.handles.iter().enumerate().filter(|(_, h)| h.is_some()).map(|(i, _)| i).collect();
                if let Some(h) = hs.first() {
                    do_step(&mut s, &mut rng, &mut script, json!({"a": "call", "op": next_op, "h": h, "spec": {"kind": "ping"}}));
                }
            }
            "handles" => {
                for k in s.live_ops() {
                    do_step(&mut s, &mut rng, &mut script, json!({"a": "drop", "t": "op", "k": k}));
                }
                for h in 0..s.handles.len() {
                    if s.handles[h].is_some() {
                        do_step(&mut s, &mut rng, &mut script, json!({"a": "drop", "t": "h", "k": h}));
                    }
                }
            }
            "ctxdrop" => {}
            _ => {}
        }
        do_step(&mut s, &mut rng, &mut script, json!({"a": "settle", "sweep": true}));
    }
    if cfg.endings.len() > 1 || ended {
        // the context goes away; a late operation must fail immediately (C14)
        do_step(&mut s, &mut rng, &mut script, json!({"a": "drop", "t": "ctx", "k": 0}));
        let hs: Vec<usize> = s.handles.iter().enumerate().filter(|(_, h)| h.is_some()).map(|(i, _)| i).collect();
        if let Some(h) = hs.first() {
            do_step(&mut s, &mut rng, &mut script, json!({"a": "call", "op": next_op + 1, "h": h, "spec": {"kind": "pub", "qos": 1, "topic": format!("t/{}", next_op + 1), "payload": "late"}}));
        }
        do_step(&mut s, &mut rng, &mut script, json!({"a": "settle", "sweep": true}));
    }
    (script, s.trace.clone())
}

pub fn smoke() -> Vec<String> {
    let p = Params { r: Some(2), ..Default::default() };
    let (_, t) = walk(&p, &profile("ops"), 1);
    t
}
