//! Session-level scripts: connection set-up, script interpreter, random walks.

use crate::io::WrMode;
use crate::mqtt::{self, Pk, Prop, PV};
use crate::sim::{Cmd, Sim, Task};
use serde_json::{json, Value};

#[derive(Clone, Debug)]
pub struct Params {
    pub run: usize,
    pub fam: String,
    pub r: Option<u16>,
    pub m: Option<u32>,
    pub sei_connect: Option<u32>,
    pub sei_connack: Option<u32>,
    pub disc: String,
    pub mode: String,
    pub log_io: bool,
}

impl Default for Params {
    fn default() -> Params {
        Params {
            run: 0,
            fam: "smoke".into(),
            r: None,
            m: None,
            sei_connect: None,
            sei_connack: None,
            disc: "wake".into(),
            mode: if cfg!(debug_assertions) { "dev".into() } else { "release".into() },
            log_io: false,
        }
    }
}

pub fn connack(p: &Params) -> Pk {
    let mut c = Pk::new(mqtt::CONNACK);
    c.rc = Some(0);
    if let Some(r) = p.r {
        c.props.push(Prop { id: 0x21, v: PV::U16(r) });
    }
    if let Some(m) = p.m {
        c.props.push(Prop { id: 0x27, v: PV::U32(m) });
    }
    if let Some(s) = p.sei_connack {
        c.props.push(Prop { id: 0x11, v: PV::U32(s) });
    }
    c
}

/// Effective session expiry interval after the handshake (CONNACK overrides CONNECT).
pub fn effective_sei(p: &Params) -> u32 {
    p.sei_connack.or(p.sei_connect).unwrap_or(0)
}

/// New client, connected and with `run()` started (not yet polled). The handshake itself is
/// not traced; the `reset` line carries its parameters.
pub fn start(p: &Params) -> Sim {
    let mut s = Sim::new();
    s.log_io = p.log_io;
    s.pipe.0.lock().unwrap().log_io = p.log_io;
    s.quiet = true;
    let mut spec = json!({"client_id": "pvh"});
    if let Some(x) = p.sei_connect {
        spec["sei"] = json!(x);
    }
    s.command(Cmd::Connect(spec));
    s.poll_ctx();
    s.inject_packet(&connack(p), 9);
    let r = s.poll_ctx();
    let ok = r.iter().any(|v| v["kind"] == "ConnectRsp");
    s.wire = Default::default();
    s.ctx_results.clear();
    s.command(Cmd::Run);
    s.quiet = false;
    s.emit(json!({
        "e": "reset", "run": p.run, "fam": p.fam, "R": p.r.unwrap_or(65535), "M": p.m.unwrap_or(0),
        "sei": effective_sei(p), "disc": p.disc, "mode": p.mode, "ok": ok as u8,
    }));
    s
}

pub fn ack(t: u8, id: u16, rc: u8) -> Pk {
    let mut a = Pk::new(t);
    if t == mqtt::PUBREL {
        a.flags = 2;
    }
    a.id = Some(id);
    a.rc = Some(rc);
    a
}

pub fn run_woken(s: &mut Sim, limit: usize) -> usize {
    let mut n = 0;
    loop {
        let w = s.woken();
        if w.is_empty() || n >= limit {
            return n;
        }
        for t in w {
            s.poll_task(&t);
            n += 1;
        }
    }
}

pub fn smoke() -> Vec<String> {
    let p = Params { r: Some(2), ..Default::default() };
    let mut s = start(&p);
    s.call(1, 0, &json!({"kind": "pub", "qos": 1, "topic": "t/1", "payload": "hello"}));
    s.call(2, 0, &json!({"kind": "sub", "filters": [{"f": "f/2", "qos": 2}]}));
    s.call(3, 0, &json!({"kind": "pub", "qos": 2, "topic": "t/3", "payload": {"tag": "p", "n": 10}}));
    s.call(4, 0, &json!({"kind": "ping"}));
    run_woken(&mut s, 100);
    let id1 = s.wire.op_id[&1];
    let id2 = s.wire.op_id[&2];
    let id3 = s.wire.op_id[&3];
    s.inject_packet(&ack(mqtt::PUBACK, id1, 0), 9);
    let mut sa = Pk::new(mqtt::SUBACK);
    sa.id = Some(id2);
    sa.rcs = vec![2];
    s.inject_packet(&sa, 9);
    s.inject_packet(&ack(mqtt::PUBREC, id3, 0), 9);
    s.inject_packet(&Pk::new(mqtt::PINGRESP), 9);
    run_woken(&mut s, 100);
    s.inject_packet(&ack(mqtt::PUBCOMP, id3, 0), 9);
    let mut m = Pk::new(mqtt::PUBLISH);
    m.flags = 2;
    m.id = Some(9);
    m.topic = b"x/y".to_vec();
    m.payload = b"data".to_vec();
    m.props.push(Prop { id: 0x0b, v: PV::Vbi(s.wire.op_sid[&2]) });
    s.inject_packet(&m, 9);
    run_woken(&mut s, 100);
    s.call(5, 0, &json!({"kind": "disc"}));
    run_woken(&mut s, 100);
    s.wr_mode(WrMode::Accept);
    let _ = Task::Ctx;
    s.drop_ctx();
    run_woken(&mut s, 100);
    s.trace.clone()
}
