mod io;
mod mqtt;
mod opts;
mod session;
mod sim;

use std::io::Write;

fn main() {
    let args: Vec<String> = std::env::args().collect();
    sim::install_quiet_panic_hook();
    let cmd = args.get(1).map(|s| s.as_str()).unwrap_or("");
    let code = match cmd {
        "smoke" => {
            let lines = session::smoke();
            let out = std::io::stdout();
            let mut o = out.lock();
            for l in lines {
                writeln!(o, "{}", l).unwrap();
            }
            0
        }
        _ => {
            eprintln!("usage: pvh <smoke|...>");
            2
        }
    };
    std::process::exit(code);
}
