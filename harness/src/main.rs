fn main(){}
