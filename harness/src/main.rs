mod families;
mod io;
mod mqtt;
mod opts;
mod session;
mod sim;
mod threads;
mod wire;

use rand::rngs::StdRng;
use rand::{Rng, SeedableRng};
use serde_json::{json, Value};
use std::collections::HashMap;
use std::fs::File;
use std::io::{BufRead, BufReader, BufWriter, Write};

fn parse_args(args: &[String]) -> HashMap<String, String> {
    let mut m = HashMap::new();
    let mut i = 0;
    while i < args.len() {
        if let Some(k) = args[i].strip_prefix("--") {
            if i + 1 < args.len() && !args[i + 1].starts_with("--") {
                m.insert(k.to_string(), args[i + 1].clone());
                i += 2;
            } else {
                m.insert(k.to_string(), "1".to_string());
                i += 1;
            }
        } else {
            i += 1;
        }
    }
    m
}

fn out_writer(path: Option<&String>) -> Box<dyn Write> {
    match path {
        Some(p) => Box::new(BufWriter::new(File::create(p).expect("cannot create output"))),
        None => Box::new(BufWriter::new(std::io::stdout())),
    }
}

fn cmd_walk(a: &HashMap<String, String>) -> i32 {
    let profile = a.get("profile").cloned().unwrap_or("ops".into());
    let runs: usize = a.get("runs").and_then(|s| s.parse().ok()).unwrap_or(10);
    let seed: u64 = a.get("seed").and_then(|s| s.parse().ok()).unwrap_or(1);
    let first: usize = a.get("first").and_then(|s| s.parse().ok()).unwrap_or(0);
    let disc = a.get("disc").cloned().unwrap_or("wake".into());
    let mut cfg = session::profile(&profile);
    if let Some(s) = a.get("steps").and_then(|s| s.parse().ok()) {
        cfg.steps = s;
    }
    let mut out = out_writer(a.get("out"));
    let mut scripts = a.get("scripts").map(|p| BufWriter::new(File::create(p).expect("cannot create scripts file")));
    for i in 0..runs {
        let run = first + i;
        let rseed = seed.wrapping_mul(1_000_003).wrapping_add(run as u64);
        let mut rng = StdRng::seed_from_u64(rseed ^ 0x9e3779b97f4a7c15);
        let r = match a.get("R").map(|s| s.as_str()) {
            Some("absent") => None,
            Some(x) => x.parse().ok(),
            None => *[Some(1u16), Some(2), Some(3), Some(10), None].get(rng.gen_range(0..5)).unwrap(),
        };
        let m = a.get("M").and_then(|s| s.parse().ok());
        // two runs in five start with packet identifiers beyond one byte (a few right below the 16-bit wrap)
        let burn = match a.get("burn").and_then(|s| s.parse().ok()) {
            Some(b) => b,
            None => *[0u32, 0, 0, 250 + (run as u32 % 12), 1020 + (run as u32 % 8)].get(rng.gen_range(0..5)).unwrap(),
        };
        let burn = if burn > 0 && run % 40 == 7 { 65_520 } else { burn };
        let p = session::Params { run, fam: profile.clone(), r, m, disc: disc.clone(), burn, ..Default::default() };
        let (script, trace) = session::walk(&p, &cfg, rseed);
        for l in trace {
            writeln!(out, "{}", l).unwrap();
        }
        if let Some(w) = scripts.as_mut() {
            writeln!(w, "{}", json!({"run": run, "seed": rseed, "steps": script})).unwrap();
        }
    }
    writeln!(out, "{}", json!({"e": "end"})).unwrap();
    0
}

fn cmd_script(a: &HashMap<String, String>) -> i32 {
    // input: NDJSON, one {"run":..,"seed":..,"steps":[..]} per line (or a bare array of steps)
    let path = a.get("in").expect("--in required");
    let only: Option<usize> = a.get("run").and_then(|s| s.parse().ok());
    let mut out = out_writer(a.get("out"));
    let f = BufReader::new(File::open(path).expect("cannot open script file"));
    for line in f.lines() {
        let line = line.unwrap();
        if line.trim().is_empty() {
            continue;
        }
        let v: Value = serde_json::from_str(&line).expect("bad script line");
        let (steps, seed, run) = match &v {
            Value::Array(s) => (s.clone(), 0u64, None),
            _ => (
                v["steps"].as_array().cloned().unwrap_or_default(),
                v["seed"].as_u64().unwrap_or(0),
                v["run"].as_u64().map(|x| x as usize),
            ),
        };
        if only.is_some() && run != only {
            continue;
        }
        if steps.is_empty() {
            continue;
        }
        for l in session::run_script(&steps, seed) {
            writeln!(out, "{}", l).unwrap();
        }
    }
    writeln!(out, "{}", json!({"e": "end"})).unwrap();
    0
}

fn main() {
    // everything runs on a thread with the stack size spawned threads and async runtime workers get by default
    // (2 MiB), so that unbounded recursion in the library shows up as it would in an application
    let h = std::thread::Builder::new().stack_size(2 << 20).spawn(real_main).expect("spawn");
    // watchdog: a single poll of a library future that has not returned after PVH_POLL_LIMIT_S seconds (default 30) never
    // will (the longest legitimate poll of any family takes milliseconds): the process aborts, which the drivers record as
    // a run ending in an `abort` line (C03+C04), like a stack overflow
    let limit_ms = std::env::var("PVH_POLL_LIMIT_S").ok().and_then(|s| s.parse::<u64>().ok()).unwrap_or(30) * 1000;
    while !h.is_finished() {
        std::thread::sleep(std::time::Duration::from_millis(50));
        let t = sim::IN_POLL.load(std::sync::atomic::Ordering::SeqCst);
        if t != 0 && sim::clock_ms() + 1 > t + limit_ms {
            eprintln!("pvh watchdog: a single poll of a library future has not returned for {} s", limit_ms / 1000);
            eprintln!("poll-never-returns");
            std::process::abort();
        }
    }
    let code = h.join().unwrap_or(101);
    std::process::exit(code);
}

fn real_main() -> i32 {
    let args: Vec<String> = std::env::args().collect();
    if std::env::var("PVH_LOUD").is_err() {
        sim::install_quiet_panic_hook();
    }
    let cmd = args.get(1).map(|s| s.as_str()).unwrap_or("");
    let a = parse_args(&args[2.min(args.len())..]);
    let code = match cmd {
        "smoke" => {
            for l in session::smoke() {
                println!("{}", l);
            }
            println!("{}", json!({"e": "end"}));
            0
        }
        "walk" => cmd_walk(&a),
        "script" => cmd_script(&a),
        "wrap" => families::wrap(&a),
        "size" => families::size(&a),
        "quotafill" => families::quotafill(&a),
        "q2seq" => families::q2seq(&a),
        "first" => families::first(&a),
        "resume" => families::resume(&a),
        "reconn" => families::reconn(&a),
        "reuse" => families::reuse(&a),
        "backlog" => families::backlog(&a),
        "sidwrap" => families::sidwrap(&a),
        "manysids" => families::manysids(&a),
        "earlyops" => families::earlyops(&a),
        "cutwrite" => families::cutwrite(&a),
        "crossid" => families::crossid(&a),
        "badopts" => families::badopts(&a),
        "blockcmp" => families::blockcmp(&a),
        "q0wrap" => families::q0wrap(&a),
        "oneread" => families::oneread(&a),
        "reasons" => families::reasons(&a),
        "chunk" => families::chunk(&a),
        "fuzz" => families::fuzz(&a),
        "endings" => families::endings(&a),
        "threads" => threads::threads(&a),
        "wiretx" => wire::wiretx(&a),
        "wirerx" => wire::wirerx(&a),
        "disccmp" => families::disccmp(&a),
        _ => {
            eprintln!("usage: pvh <smoke|walk|script> [--key value ...]");
            2
        }
    };
    code
}
