//! Targeted families of runs (deterministic enumerations, each case one run of the real client).

use crate::mqtt::{self, Pk, Prop, PV};
use crate::session::{self, exec_step, start, Params};
use crate::sim::{Cmd, Sim};
use rand::rngs::StdRng;
use rand::seq::SliceRandom;
use rand::{Rng, SeedableRng};
use serde_json::{json, Value};
use std::collections::HashMap;
use std::io::Write;

pub struct Sink {
    pub out: Box<dyn Write>,
    pub scripts: Option<Box<dyn Write>>,
    pub shard: usize,
    pub shards: usize,
    pub next: usize,
    pub emitted: usize,
}

impl Sink {
    pub fn new(a: &HashMap<String, String>) -> Sink {
        let out: Box<dyn Write> = match a.get("out") {
            Some(p) => Box::new(std::io::BufWriter::new(std::fs::File::create(p).expect("out"))),
            None => Box::new(std::io::BufWriter::new(std::io::stdout())),
        };
        let scripts: Option<Box<dyn Write>> =
            a.get("scripts").map(|p| Box::new(std::io::BufWriter::new(std::fs::File::create(p).expect("scripts"))) as Box<dyn Write>);
        Sink {
            out,
            scripts,
            shard: a.get("shard").and_then(|s| s.parse().ok()).unwrap_or(0),
            shards: a.get("shards").and_then(|s| s.parse().ok()).unwrap_or(1),
            next: 0,
            emitted: 0,
        }
    }
    /// Case numbering is global; a shard takes every `shards`-th case.
    pub fn mine(&mut self) -> Option<usize> {
        let i = self.next;
        self.next += 1;
        if i % self.shards == self.shard {
            Some(i)
        } else {
            None
        }
    }
    pub fn run_script(&mut self, run: usize, mut steps: Vec<Value>, seed: u64) {
        steps[0]["run"] = json!(run);
        for l in session::run_script(&steps, seed) {
            writeln!(self.out, "{}", l).unwrap();
        }
        if let Some(w) = self.scripts.as_mut() {
            writeln!(w, "{}", json!({"run": run, "seed": seed, "steps": steps})).unwrap();
            w.flush().unwrap();
        }
        self.out.flush().unwrap();
        self.emitted += 1;
    }
    pub fn lines(&mut self, run: usize, lines: &[String], script: Value) {
        for l in lines {
            writeln!(self.out, "{}", l).unwrap();
        }
        if let Some(w) = self.scripts.as_mut() {
            writeln!(w, "{}", json!({"run": run, "seed": 0, "steps": script})).unwrap();
            w.flush().unwrap();
        }
        self.out.flush().unwrap();
        self.emitted += 1;
    }
    pub fn finish(mut self) {
        writeln!(self.out, "{}", json!({"e": "end"})).unwrap();
        self.out.flush().unwrap();
        if let Some(mut w) = self.scripts.take() {
            w.flush().unwrap();
        }
    }
}

fn reset(fam: &str, r: Option<u16>, m: Option<u32>) -> Value {
    Params { fam: fam.into(), r, m, ..Default::default() }.to_json()
}

fn settle() -> Value {
    json!({"a": "settle", "sweep": true})
}

fn settle_wake() -> Value {
    json!({"a": "settle", "sweep": false})
}

fn poll_ctx() -> Value {
    json!({"a": "poll", "t": "ctx"})
}

fn poll_op(k: usize) -> Value {
    json!({"a": "poll", "t": "op", "k": k})
}

fn pub_spec(k: usize, qos: u8, n: usize) -> Value {
    json!({"kind": "pub", "qos": qos, "topic": format!("t/{}", k), "payload": {"tag": format!("p{}", k), "n": n}})
}

fn tier_of(a: &HashMap<String, String>) -> bool {
    a.get("tier").map(|s| s == "thorough").unwrap_or(false)
}

fn seed_of(a: &HashMap<String, String>) -> u64 {
    a.get("seed").and_then(|s| s.parse().ok()).unwrap_or(1)
}

// ---------------------------------------------------------------------------------------------
// C11: identifier wrap-around. One long run, many identifier-consuming operations from three handle
// clones with a varying number outstanding.

pub fn wrap(a: &HashMap<String, String>) -> i32 {
    let thorough = tier_of(a);
    let mut sink = Sink::new(a);
    let seed = seed_of(a);
    // shard 0: the long single-task run; other shards: shorter runs with other mixes / seeds
    let total = if sink.shard == 0 { if thorough { 140_000 } else { 67_000 } } else { 3_000 };
    let mut rng = StdRng::seed_from_u64(seed.wrapping_mul(77).wrapping_add(sink.shard as u64));
    let mut steps = vec![reset("wrap", None, None)];
    steps.push(json!({"a": "clone", "from": 0}));
    steps.push(json!({"a": "clone", "from": 0}));
    let mut next = 1usize;
    // outstanding: (op, kind, stage) where stage for pub2: 0 = awaits PUBREC, 1 = awaits PUBCOMP
    let mut outstanding: Vec<(usize, &'static str, u8)> = vec![];
    let mut issued = 0usize;
    let mut nsub = 0usize;
    let max_out = 40usize;
    while issued < total {
        let room = max_out.saturating_sub(outstanding.len());
        let b = if room == 0 { 0 } else { rng.gen_range(1..=room.min(25)) };
        let mut batch = vec![];
        for _ in 0..b {
            let k = next;
            next += 1;
            let r = rng.gen_range(0..100);
            let kind: &'static str = if r < 55 {
                "pub1"
            } else if r < 75 {
                "pub2"
            } else if r < 99 || nsub > 120 {
                "unsub"
            } else {
                "sub"
            };
            let spec = match kind {
                "pub1" => pub_spec(k, 1, 2),
                "pub2" => pub_spec(k, 2, 2),
                "unsub" => json!({"kind": "unsub", "filters": [{"f": format!("f/{}", k)}]}),
                _ => {
                    nsub += 1;
                    json!({"kind": "sub", "filters": [{"f": format!("f/{}", k), "qos": 1}]})
                }
            };
            steps.push(json!({"a": "call", "op": k, "h": k % 3, "spec": spec}));
            batch.push((k, kind));
            issued += 1;
        }
        for (k, _) in &batch {
            steps.push(poll_op(*k));
        }
        steps.push(poll_ctx());
        for (k, kind) in batch {
            outstanding.push((k, kind, 0));
        }
        // acknowledge a random subset, in random order
        outstanding.shuffle(&mut rng);
        let n_ack = if issued >= total { outstanding.len() } else { rng.gen_range(0..=outstanding.len()) };
        let mut keep = vec![];
        let mut polled = vec![];
        for (i, (k, kind, stage)) in outstanding.clone().into_iter().enumerate() {
            if i >= n_ack {
                keep.push((k, kind, stage));
                continue;
            }
            match (kind, stage) {
                ("pub1", _) => steps.push(json!({"a": "pkt", "pk": {"t": "PUBACK", "id": {"op": k}, "rc": 0}})),
                ("pub2", 0) => {
                    steps.push(json!({"a": "pkt", "pk": {"t": "PUBREC", "id": {"op": k}, "rc": 0}}));
                    keep.push((k, kind, 1));
                }
                ("pub2", _) => steps.push(json!({"a": "pkt", "pk": {"t": "PUBCOMP", "id": {"op": k}, "rc": 0}})),
                ("unsub", _) => steps.push(json!({"a": "pkt", "pk": {"t": "UNSUBACK", "id": {"op": k}, "rcs": [0]}})),
                _ => steps.push(json!({"a": "pkt", "pk": {"t": "SUBACK", "id": {"op": k}, "rcs": [1]}})),
            }
            polled.push((k, kind));
        }
        outstanding = keep;
        steps.push(poll_ctx());
        for (k, kind) in &polled {
            steps.push(poll_op(*k));
            if *kind == "sub" {
                steps.push(json!({"a": "drop", "t": "st", "k": k}));
            }
        }
        steps.push(poll_ctx()); // PUBRELs of the QoS 2 publishes that just saw their PUBREC
        if outstanding.len() > 30 {
            // drain below the bound again
            continue;
        }
    }
    // finish what is left
    for _round in 0..3 {
        let mut keep = vec![];
        let mut polled = vec![];
        for (k, kind, stage) in outstanding.clone() {
            match (kind, stage) {
                ("pub1", _) => steps.push(json!({"a": "pkt", "pk": {"t": "PUBACK", "id": {"op": k}, "rc": 0}})),
                ("pub2", 0) => {
                    steps.push(json!({"a": "pkt", "pk": {"t": "PUBREC", "id": {"op": k}, "rc": 0}}));
                    keep.push((k, kind, 1));
                }
                ("pub2", _) => steps.push(json!({"a": "pkt", "pk": {"t": "PUBCOMP", "id": {"op": k}, "rc": 0}})),
                ("unsub", _) => steps.push(json!({"a": "pkt", "pk": {"t": "UNSUBACK", "id": {"op": k}, "rcs": [0]}})),
                _ => steps.push(json!({"a": "pkt", "pk": {"t": "SUBACK", "id": {"op": k}, "rcs": [1]}})),
            }
            polled.push(k);
        }
        outstanding = keep;
        steps.push(poll_ctx());
        for k in polled {
            steps.push(poll_op(k));
        }
        steps.push(poll_ctx());
    }
    steps.push(settle());
    let run = sink.shard;
    sink.run_script(run, steps, seed);
    sink.finish();
    0
}

// ---------------------------------------------------------------------------------------------
// C12: Maximum Packet Size. For every request kind and a range of option records, the limit is put
// just below, at and just above the encoded length (measured in a first run without a limit).

fn measure_len(spec: &Value) -> Option<usize> {
    let p = Params { fam: "measure".into(), ..Default::default() };
    let mut s = start(&p);
    s.call(1, 0, spec);
    s.poll_op(1);
    s.poll_ctx();
    s.wire.packets.first().map(|p| p.total_len)
}

pub fn size(a: &HashMap<String, String>) -> i32 {
    let thorough = tier_of(a);
    let mut sink = Sink::new(a);
    let seed = seed_of(a);
    let mut specs: Vec<Value> = vec![];
    let pls: Vec<usize> = if thorough {
        vec![0, 1, 2, 10, 100, 110, 111, 112, 113, 114, 115, 116, 117, 118, 119, 120, 121, 122, 123, 124, 125, 126, 127, 128, 129, 130, 200, 300, 16360, 16370, 16371, 16372, 16373, 16374, 16375, 16376, 16377, 16378, 16379, 16380, 16390]
    } else {
        vec![0, 1, 10, 116, 117, 118, 119, 120, 121, 122, 123, 124, 125, 300, 16372, 16373, 16374, 16375, 16376, 16377, 16378]
    };
    for q in 0..3u8 {
        for pl in &pls {
            specs.push(pub_spec(1, q, *pl));
        }
        specs.push(json!({"kind": "pub", "qos": q, "topic": "t/1", "payload": "x", "ups": [["k", "v"], ["kk", "vv"]], "ctype": "text/plain", "mei": 5, "retain": true}));
        specs.push(json!({"kind": "pub", "qos": q, "topic": "t/1", "corr": {"tag": "c", "n": 70}, "resp": {"tag": "r", "n": 40}, "pfi": true}));
    }
    for nf in 1..=3usize {
        for flen in [3usize, 20, 120] {
            let fl: Vec<Value> = (0..nf).map(|i| json!({"f": format!("f/1/{}{}", i, "x".repeat(flen)), "qos": i % 3})).collect();
            specs.push(json!({"kind": "sub", "filters": fl.clone()}));
            specs.push(json!({"kind": "sub", "filters": fl.clone(), "ups": [["a", "b"]]}));
            specs.push(json!({"kind": "unsub", "filters": fl.clone()}));
            specs.push(json!({"kind": "unsub", "filters": fl, "ups": [["a", "b"]]}));
        }
    }
    specs.push(json!({"kind": "ping"}));
    specs.push(json!({"kind": "disc"}));
    specs.push(json!({"kind": "disc", "reason": 4}));
    specs.push(json!({"kind": "disc", "reason": 0, "rs": "bye bye", "ups": [["k", "v"]]}));
    specs.push(json!({"kind": "disc", "sei": 30}));
    for spec in specs {
        let l = match measure_len(&spec) {
            Some(l) => l,
            None => continue,
        };
        let ms: Vec<Option<u32>> = vec![Some((l as u32).saturating_sub(1).max(1)), Some(l as u32), Some(l as u32 + 1), Some(1), Some(u32::MAX), None];
        for (m, auth, own) in ms.iter().flat_map(|m| [(*m, false, None), (*m, true, None), (*m, false, Some(2u32)), (*m, false, Some(l as u32 - 1))]) {
            let run = match sink.mine() {
                Some(r) => r,
                None => continue,
            };
            let mut steps = vec![reset("size", Some(2), m)];
            // second variant: the limits arrive in a CONNACK that concludes an extended authentication; third and fourth: the
            // client announced a Maximum Packet Size of its own in CONNECT (that limits the server, not the client)
            steps[0]["auth"] = json!(auth);
            steps[0]["own_max"] = json!(own);
            // the transport takes a few bytes per write in two runs of three ("written in full" is about the wire, not one call)
            if run % 3 != 0 {
                steps.push(json!({"a": "wrmode", "m": "max", "k": 1 + run % 5}));
            }
            // two subscriptions made before: a refused request must leave them (and their streams) alone
            let presubs = run % 2 == 0;
            if presubs {
                for k in [91usize, 92] {
                    steps.push(json!({"a": "call", "op": k, "h": 0, "spec": {"kind": "sub", "filters": [{"f": format!("f/{}", k), "qos": 1}]}}));
                    steps.push(settle_wake());
                    steps.push(json!({"a": "pkt", "pk": {"t": "SUBACK", "id": {"op": k}, "rcs": [1]}}));
                    steps.push(settle_wake());
                }
            }
            steps.push(json!({"a": "call", "op": 1, "h": 0, "spec": spec}));
            steps.push(settle_wake());
            if presubs {
                for k in [91usize, 92] {
                    steps.push(json!({"a": "pkt", "pk": {"t": "PUBLISH", "qos": 0, "id": 0, "dup": 0, "topic": format!("pre/{}", k), "payload": "still", "sids": [{"sub": k}]}}));
                    steps.push(settle_wake());
                }
            }
            let kind = spec["kind"].as_str().unwrap_or("");
            let q = spec["qos"].as_u64().unwrap_or(0);
            match (kind, q) {
                ("pub", 1) => steps.push(json!({"a": "pkt", "pk": {"t": "PUBACK", "id": {"op": 1}, "rc": 0}})),
                ("pub", 2) => {
                    steps.push(json!({"a": "pkt", "pk": {"t": "PUBREC", "id": {"op": 1}, "rc": 0}}));
                    steps.push(settle_wake());
                    steps.push(json!({"a": "pkt", "pk": {"t": "PUBCOMP", "id": {"op": 1}, "rc": 0}}));
                }
                ("sub", _) => steps.push(json!({"a": "pkt", "pk": {"t": "SUBACK", "id": {"op": 1}, "rcs": [0]}})),
                ("unsub", _) => steps.push(json!({"a": "pkt", "pk": {"t": "UNSUBACK", "id": {"op": 1}, "rcs": [0]}})),
                ("ping", _) => steps.push(json!({"a": "pkt", "pk": {"t": "PINGRESP"}})),
                _ => {}
            }
            steps.push(settle_wake());
            if kind != "disc" {
                // probes: nothing of a refused request may be left behind
                steps.push(json!({"a": "call", "op": 2, "h": 0, "spec": pub_spec(2, 1, 0)}));
                steps.push(json!({"a": "call", "op": 3, "h": 0, "spec": pub_spec(3, 2, 0)}));
                steps.push(json!({"a": "call", "op": 4, "h": 0, "spec": {"kind": "ping"}}));
                steps.push(settle_wake());
                steps.push(json!({"a": "pkt", "pk": {"t": "PUBLISH", "qos": 1, "id": 9, "topic": "in/1", "payload": "m", "sids": [1]}}));
                steps.push(json!({"a": "pkt", "pk": {"t": "PINGRESP"}}));
                steps.push(json!({"a": "pkt", "pk": {"t": "PUBACK", "id": {"op": 2}, "rc": 0}}));
                steps.push(json!({"a": "pkt", "pk": {"t": "PUBREC", "id": {"op": 3}, "rc": 128}}));
                steps.push(settle_wake());
                steps.push(json!({"a": "call", "op": 5, "h": 0, "spec": pub_spec(5, 1, 0)}));
                steps.push(json!({"a": "call", "op": 6, "h": 0, "spec": pub_spec(6, 1, 0)}));
            }
            steps.push(settle());
            sink.run_script(run, steps, seed);
        }
    }
    sink.finish();
    0
}

// ---------------------------------------------------------------------------------------------
// C10: fill the send quota to R, one more is refused, drain in random order (success and failure
// reasons), refill.

pub fn quotafill(a: &HashMap<String, String>) -> i32 {
    let thorough = tier_of(a);
    let mut sink = Sink::new(a);
    let seed = seed_of(a);
    let mut rs: Vec<Option<u16>> = vec![Some(1), Some(2), Some(3), Some(10), Some(40)];
    if thorough {
        rs.push(Some(1000));
        rs.push(Some(65535));
        rs.push(None);
    } else {
        rs.push(Some(300));
    }
    for (ri, r) in rs.iter().enumerate() {
        for variant in 0..(if thorough { 4 } else { 2 }) {
            let run = match sink.mine() {
                Some(x) => x,
                None => continue,
            };
            let rr = r.unwrap_or(65535) as usize;
            if rr > 2000 && variant > 0 {
                continue;
            }
            let mut rng = StdRng::seed_from_u64(seed * 31 + ri as u64 * 7 + variant);
            let mut steps = vec![reset("quotafill", *r, None)];
            steps[0]["auth"] = json!(run % 2 == 1);
            // the client's own Receive Maximum (CONNECT) is about what the SERVER may send: it must not limit the client
            if run % 3 == 1 {
                steps[0]["own_rmax"] = json!(1 + run % 2);
            }
            let mut next = 1usize;
            let mut open: Vec<(usize, u8, u8)> = vec![]; // op, qos, stage
            for round in 0..2 {
                // fill
                // (with the Receive Maximum at or near the top of its range the quota is not filled up - trace validation is
                // quadratic in the number of exchanges open at once; every R in 1..65535 is covered by the inductive invariant
                // spec/apalache/QuotaInd.tla - but 2 000 publishes must all be accepted)
                while open.len() < rr.min(2000) {
                    let k = next;
                    next += 1;
                    let q = if rng.gen_range(0..3) == 0 { 2 } else { 1 };
                    steps.push(json!({"a": "call", "op": k, "h": 0, "spec": pub_spec(k, q, 0)}));
                    steps.push(poll_op(k));
                    open.push((k, q, 0));
                    if open.len() % 50 == 0 {
                        steps.push(poll_ctx());
                    }
                }
                steps.push(poll_ctx());
                // one (two) more: refused; QoS 0 and ping: never limited
                for q in [1u8, 2] {
                    let k = next;
                    next += 1;
                    steps.push(json!({"a": "call", "op": k, "h": 0, "spec": pub_spec(k, q, 0)}));
                }
                let k0 = next;
                next += 2;
                steps.push(json!({"a": "call", "op": k0, "h": 0, "spec": pub_spec(k0, 0, 3)}));
                steps.push(json!({"a": "call", "op": k0 + 1, "h": 0, "spec": {"kind": "ping"}}));
                steps.push(settle_wake());
                steps.push(json!({"a": "pkt", "pk": {"t": "PINGRESP"}}));
                // drain in random order
                open.shuffle(&mut rng);
                let mut stage2 = vec![];
                for (i, (k, q, _)) in open.iter().enumerate() {
                    let fail = rng.gen_range(0..3) == 0;
                    let rc = if fail { *[0x80u8, 0x83, 0x87, 0x90, 0x91, 0x97, 0x99].choose(&mut rng).unwrap() } else { *[0u8, 0x10].choose(&mut rng).unwrap() };
                    if *q == 1 {
                        steps.push(json!({"a": "pkt", "pk": {"t": "PUBACK", "id": {"op": k}, "rc": rc}}));
                    } else {
                        steps.push(json!({"a": "pkt", "pk": {"t": "PUBREC", "id": {"op": k}, "rc": rc}}));
                        if !fail {
                            stage2.push(*k);
                        }
                    }
                    if i % 50 == 49 {
                        steps.push(settle_wake());
                    }
                }
                steps.push(settle_wake());
                for (i, k) in stage2.iter().enumerate() {
                    let rc = if rng.gen_range(0..4) == 0 { 0x92 } else { 0 };
                    steps.push(json!({"a": "pkt", "pk": {"t": "PUBCOMP", "id": {"op": k}, "rc": rc}}));
                    if i % 50 == 49 {
                        steps.push(settle_wake());
                    }
                }
                steps.push(settle_wake());
                open.clear();
                if round == 1 {
                    break;
                }
            }
            steps.push(settle());
            sink.run_script(run, steps, seed);
        }
    }
    sink.finish();
    0
}

// ---------------------------------------------------------------------------------------------
// C09: every sequence over {PUBLISH(QoS 2, id, dup), PUBREL(id)} for two identifiers, up to a length

pub fn q2seq(a: &HashMap<String, String>) -> i32 {
    let thorough = tier_of(a);
    let mut sink = Sink::new(a);
    let seed = seed_of(a);
    let maxlen = if thorough { 6 } else { 5 };
    // alphabet: 0..3 = PUBLISH(id 1|2, dup 0|1); 4,5 = PUBREL(id)
    let mut seqs: Vec<Vec<u8>> = vec![vec![]];
    let mut frontier: Vec<Vec<u8>> = vec![vec![]];
    for _ in 0..maxlen {
        let mut nf = vec![];
        for s in &frontier {
            for x in 0..6u8 {
                let mut t = s.clone();
                t.push(x);
                nf.push(t);
            }
        }
        seqs.extend(nf.iter().cloned());
        frontier = nf;
    }
    for sq in seqs {
        if sq.len() < 2 {
            continue;
        }
        let run = match sink.mine() {
            Some(x) => x,
            None => continue,
        };
        let mut steps = vec![reset("q2seq", None, None)];
        steps.push(json!({"a": "call", "op": 1, "h": 0, "spec": {"kind": "sub", "filters": [{"f": "f/1", "qos": 2}]}}));
        steps.push(settle_wake());
        steps.push(json!({"a": "pkt", "pk": {"t": "SUBACK", "id": {"op": 1}, "rcs": [2]}}));
        steps.push(settle_wake());
        let mut open: HashMap<u16, usize> = HashMap::new();
        let mut msg = 0usize;
        for (i, x) in sq.iter().enumerate() {
            if *x < 4 {
                let id = (*x / 2 + 1) as u16;
                let dup = *x % 2;
                let content = match open.get(&id) {
                    Some(c) => *c,
                    None => {
                        msg += 1;
                        open.insert(id, msg);
                        msg
                    }
                };
                steps.push(json!({"a": "pkt", "pk": {"t": "PUBLISH", "qos": 2, "id": id, "dup": dup, "topic": format!("m/{}", content),
                    "payload": format!("c{}", content), "sids": [{"sub": 1}]}}));
            } else {
                let id = (*x - 3) as u16;
                open.remove(&id);
                steps.push(json!({"a": "pkt", "pk": {"t": "PUBREL", "id": id, "rc": 0}}));
            }
            // other traffic in between, and sometimes let the client catch up
            if i % 2 == 1 {
                steps.push(json!({"a": "pkt", "pk": {"t": "PUBLISH", "qos": (i % 2) as u8, "id": 7, "topic": format!("o/{}", i), "payload": "o", "sids": [{"sub": 1}]}}));
            }
            if (run + i) % 3 == 0 {
                steps.push(settle_wake());
            }
        }
        steps.push(settle());
        sink.run_script(run, steps, seed);
    }
    sink.finish();
    0
}

// ---------------------------------------------------------------------------------------------
// C13 (first response): what connect()/authorize() return for every kind of first response

fn first_case(sink: &mut Sink, run: usize, auth_first: bool, inj: &Value) {
    let mut s = Sim::new();
    s.quiet = true;
    let mut lines = vec![json!({"e": "reset", "run": run, "fam": "first", "R": 65535, "M": 0, "sei": 0, "seik": "zero", "disc": "wake",
        "mode": if cfg!(debug_assertions) { "dev" } else { "release" }, "ok": 1, "recon": 0})
    .to_string()];
    let connect_spec = if auth_first { json!({"client_id": "pvh", "auth_method": "m", "auth_data": "d"}) } else { json!({"client_id": "pvh"}) };
    s.command(Cmd::Connect(connect_spec));
    s.poll_ctx();
    let mut phase = "connect";
    if auth_first {
        // the server answers CONNECT with an AUTH challenge; the case under test is the answer to authorize()
        let mut ch = Pk::new(mqtt::AUTH);
        ch.rc = Some(0x18);
        ch.props.push(Prop { id: 0x15, v: PV::Str(b"m".to_vec()) });
        s.inject_packet(&ch, 9);
        s.poll_ctx();
        s.ctx_results.clear();
        s.command(Cmd::Authorize(json!({"reason": 0x18, "method": "m", "data": "resp"})));
        s.poll_ctx();
        phase = "authorize";
    }
    let kind = inj["k"].as_str().unwrap_or("");
    let mut x = String::new();
    let mut rc = 0u64;
    match kind {
        "EOF" => s.eof(),
        "ERR" => s.rderr(),
        _ => {
            if let Some(pk) = session::packet_from_json(&s, &inj["pk"]) {
                let b = mqtt::encode(&pk, inj["form"].as_u64().unwrap_or(9) as u8);
                if let Ok(mut d) = mqtt::decode(&b) {
                    // what a refusal exposes: reason string, server reference, user properties (capabilities are not part of it)
                    if d.t == mqtt::CONNACK {
                        d.props.retain(|p| [0x1f, 0x1c, 0x26].contains(&p.id));
                    }
                    let ab = d.abs();
                    x = ab["x"].as_str().unwrap_or("").to_string();
                    rc = ab["rc"].as_u64().unwrap_or(0);
                }
                s.inject_bytes(&b, &[], vec![]);
            }
        }
    }
    let res = s.poll_ctx();
    let r = res.last().cloned().unwrap_or(crate::sim::res_rec("pending", "", 0, ""));
    lines.push(json!({"e": "first", "phase": phase, "inj": kind, "rc": rc, "x": x, "res": {"r": r["r"], "kind": r["kind"], "rc": r["rc"], "x": r["x"]}}).to_string());
    sink.lines(run, &lines, json!([{"auth_first": auth_first, "inj": inj}]));
}

/// Every legal reason code of every acknowledgement, one per run, deterministic (the walks draw them at random): the
/// operation's outcome, what is (not) written next - no PUBREL after a failing PUBREC - and the session going on
/// with further exchanges that use the freed slot and, with Receive Maximum 1, need it.
pub fn reasons(a: &HashMap<String, String>) -> i32 {
    let mut sink = Sink::new(a);
    let seed = seed_of(a);
    let mut cases: Vec<(&str, u8, u8)> = vec![];
    for rc in session::PUB_REASONS {
        cases.push(("PUBACK", rc, 0));
        cases.push(("PUBREC", rc, 0));
        if rc < 0x80 {
            cases.push(("PUBREC", rc, 0x92));
        }
    }
    for rc in session::SUBACK_REASONS {
        cases.push(("SUBACK", rc, 0));
    }
    for rc in session::UNSUBACK_REASONS {
        cases.push(("UNSUBACK", rc, 0));
    }
    for (t, rc, rc2) in cases {
        for r in [1u16, 3] {
            let run = match sink.mine() {
                Some(x) => x,
                None => continue,
            };
            let mut steps = vec![reset("reasons", Some(r), None)];
            let spec = match t {
                "PUBACK" => pub_spec(1, 1, 2),
                "PUBREC" => pub_spec(1, 2, 2),
                "SUBACK" => json!({"kind": "sub", "filters": [{"f": "f/1", "qos": 1}]}),
                _ => json!({"kind": "unsub", "filters": [{"f": "f/1"}]}),
            };
            steps.push(json!({"a": "call", "op": 1, "h": 0, "spec": spec}));
            steps.push(settle_wake());
            if t == "SUBACK" || t == "UNSUBACK" {
                steps.push(json!({"a": "pkt", "pk": {"t": t, "id": {"op": 1}, "rcs": [rc]}}));
            } else {
                steps.push(json!({"a": "pkt", "pk": {"t": t, "id": {"op": 1}, "rc": rc}}));
            }
            steps.push(settle_wake());
            if t == "PUBREC" && rc < 0x80 {
                steps.push(json!({"a": "pkt", "pk": {"t": "PUBCOMP", "id": {"op": 1}, "rc": rc2}}));
                steps.push(settle_wake());
            }
            // the session goes on: a QoS 2 and a QoS 1 exchange, one after the other (each needs the slot with R = 1)
            steps.push(json!({"a": "call", "op": 2, "h": 0, "spec": pub_spec(2, 2, 1)}));
            steps.push(settle_wake());
            steps.push(json!({"a": "pkt", "pk": {"t": "PUBREC", "id": {"op": 2}, "rc": 0}}));
            steps.push(settle_wake());
            steps.push(json!({"a": "pkt", "pk": {"t": "PUBCOMP", "id": {"op": 2}, "rc": 0}}));
            steps.push(settle_wake());
            steps.push(json!({"a": "call", "op": 3, "h": 0, "spec": pub_spec(3, 1, 1)}));
            steps.push(settle_wake());
            steps.push(json!({"a": "pkt", "pk": {"t": "PUBACK", "id": {"op": 3}, "rc": 0}}));
            steps.push(settle());
            sink.run_script(run, steps, seed);
        }
    }
    sink.finish();
    0
}

pub const CONNACK_REASONS: [u8; 22] = [
    0x00, 0x80, 0x81, 0x82, 0x83, 0x84, 0x85, 0x86, 0x87, 0x88, 0x89, 0x8a, 0x8c, 0x90, 0x95, 0x97, 0x99, 0x9a, 0x9b, 0x9c, 0x9d, 0x9f,
];

pub fn first(a: &HashMap<String, String>) -> i32 {
    let mut sink = Sink::new(a);
    let mut cases: Vec<Value> = vec![json!({"k": "EOF"}), json!({"k": "ERR"})];
    for rc in CONNACK_REASONS {
        for props in [json!([]), json!([[0x1f, "because"], [0x26, "k", "v"]]), json!([[0x1c, "other.example"], [0x1f, "moved"]])] {
            cases.push(json!({"k": "CONNACK", "pk": {"t": "CONNACK", "rc": rc, "props": props}}));
        }
        // capability properties: a refusal may announce anything (also "no subscription identifiers" - only the SUCCESSFUL
        // CONNACK saying so meets the documented assertion), an acceptance everything but that
        let mut caps = vec![json!([[0x21, 5], [0x27, 100], [0x24, 1], [0x25, 0]]), json!([[0x28, 0], [0x2a, 0], [0x22, 3], [0x13, 30]]), json!([[0x29, 1], [0x12, "assigned"]])];
        if rc >= 0x80 {
            caps.push(json!([[0x29, 0]]));
            caps.push(json!([[0x1f, "no"], [0x29, 0], [0x28, 0]]));
        }
        for props in caps {
            cases.push(json!({"k": "CONNACK", "pk": {"t": "CONNACK", "rc": rc, "props": props}}));
        }
        // 128 bytes of properties and more (a Property Length of two bytes), accepted and refused alike
        for n in [121usize, 122, 123, 124, 125, 126, 300, 16_400] {
            cases.push(json!({"k": "CONNACK", "pk": {"t": "CONNACK", "rc": rc, "props": [[0x1f, "r".repeat(n)]]}}));
        }
    }
    for rc in [0x00u8, 0x18, 0x19] {
        for props in [json!([[0x15, "m"], [0x16, "challenge"]]), json!([[0x15, "m"], [0x16, "c"], [0x1f, "more"], [0x26, "k", "v"]])] {
            cases.push(json!({"k": "AUTH", "pk": {"t": "AUTH", "rc": rc, "props": props}}));
        }
    }
    for auth_first in [false, true] {
        for c in &cases {
            if let Some(run) = sink.mine() {
                first_case(&mut sink, run, auth_first, c);
            }
        }
    }
    sink.finish();
    0
}

// ---------------------------------------------------------------------------------------------
// C17: session resumption. Histories of QoS 1/2 publishes and acknowledgements, the connection lost
// after every prefix, for every kind of session expiry and both sides of it.

pub fn resume(a: &HashMap<String, String>) -> i32 {
    let thorough = tier_of(a);
    let mut sink = Sink::new(a);
    let seed = seed_of(a);
    let maxn = if thorough { 4 } else { 3 };
    for n in 1..=maxn {
        for qmask in 0..(1u32 << n) {
            for perm in 0..(if thorough { 3 } else { 2 }) {
                let mut rng = StdRng::seed_from_u64(seed * 1000 + n as u64 * 100 + qmask as u64 * 10 + perm);
                // the full history as a list of steps
                let mut hist: Vec<Value> = vec![];
                let qos: Vec<u8> = (0..n).map(|i| if qmask >> i & 1 == 1 { 2 } else { 1 }).collect();
                if perm == 1 {
                    // a request that is awaited but never re-sent (ping / subscribe / unsubscribe), sent ahead of the publishes
                    // and never answered: the publishes are stored and released by their own identifiers, wherever they
                    // stand among the awaited acknowledgements
                    let spec = match (n + qmask as usize) % 3 {
                        0 => json!({"kind": "ping"}),
                        1 => json!({"kind": "sub", "filters": [{"f": "f/8", "qos": 1}]}),
                        _ => json!({"kind": "unsub", "filters": [{"f": "f/8"}]}),
                    };
                    hist.push(json!({"a": "call", "op": 8, "h": 0, "spec": spec}));
                    hist.push(poll_op(8));
                }
                for i in 0..n {
                    let k = i + 1;
                    hist.push(json!({"a": "call", "op": k, "h": 0, "spec": pub_spec(k, qos[i], 3)}));
                    hist.push(poll_op(k));
                }
                hist.push(poll_ctx());
                // acknowledgement steps per op, interleaved randomly but in order per op
                let mut per: Vec<Vec<Vec<Value>>> = vec![];
                for i in 0..n {
                    let k = i + 1;
                    if qos[i] == 1 {
                        per.push(vec![vec![json!({"a": "pkt", "pk": {"t": "PUBACK", "id": {"op": k}, "rc": 0}}), poll_ctx(), poll_op(k)]]);
                    } else {
                        per.push(vec![
                            vec![json!({"a": "pkt", "pk": {"t": "PUBREC", "id": {"op": k}, "rc": 0}}), poll_ctx(), poll_op(k), poll_ctx()],
                            vec![json!({"a": "pkt", "pk": {"t": "PUBCOMP", "id": {"op": k}, "rc": 0}}), poll_ctx(), poll_op(k)],
                        ]);
                    }
                }
                let mut idx = vec![0usize; n];
                loop {
                    let avail: Vec<usize> = (0..n).filter(|i| idx[*i] < per[*i].len()).collect();
                    if avail.is_empty() {
                        break;
                    }
                    let i = *avail.choose(&mut rng).unwrap();
                    hist.extend(per[i][idx[i]].iter().cloned());
                    idx[i] += 1;
                }
                // cut points: after every step that ends a "phase" (a ctx poll or an op poll)
                let cuts: Vec<usize> = (0..=hist.len()).filter(|c| *c == 0 || *c == hist.len() || hist[*c - 1]["a"] == "poll").collect();
                for cut in cuts {
                    // (requested interval, interval assigned by the broker in CONNACK - that one governs -, seconds since the loss)
                    for (sei, sei_ack, secs) in [(0u32, None, 0u64), (100, None, 0), (100, None, 150), (u32::MAX, None, 0), (u32::MAX, None, 1_000_000),
                                                 (1000, Some(10u32), 50), (5, Some(1000), 50), (0, Some(u32::MAX), 7), (u32::MAX, Some(0), 0),
                                                 // the boundary: an interval of N seconds has elapsed once N whole seconds have passed (never N-1: the clock may tick)
                                                 (100, None, 100), (1, None, 1), (100, None, 101), (7, Some(3), 3)] {
                        let run = match sink.mine() {
                            Some(x) => x,
                            None => continue,
                        };
                        let p = Params { fam: "resume".into(), r: Some(10), sei_connect: Some(sei), sei_connack: sei_ack, ..Default::default() };
                        let mut steps = vec![p.to_json()];
                        steps.extend(hist[..cut].iter().cloned());
                        steps.push(settle_wake());
                        steps.push(json!({"a": "eof"}));
                        steps.push(settle_wake());
                        steps.push(json!({"a": "markdisc", "secs": secs}));
                        let mut rc = p.to_json();
                        rc["a"] = json!("reconnect");
                        steps.push(rc.clone());
                        steps.push(poll_ctx());
                        steps.push(settle_wake());
                        if perm == 0 && cut % 2 == 1 {
                            // the new connection is lost as well before anything is acknowledged: the second resumption
                            // must re-send the same packets again
                            steps.push(json!({"a": "eof"}));
                            steps.push(settle_wake());
                            steps.push(json!({"a": "markdisc", "secs": secs}));
                            steps.push(rc);
                            steps.push(poll_ctx());
                            steps.push(settle_wake());
                        }
                        // the broker acknowledges what it receives on the new connection; QoS 2 goes through both phases
                        steps.push(json!({"a": "autoack"}));
                        steps.push(settle_wake());
                        steps.push(json!({"a": "autoack"}));
                        steps.push(settle_wake());
                        // new traffic afterwards still works
                        steps.push(json!({"a": "call", "op": 9, "h": 0, "spec": pub_spec(9, 1, 1)}));
                        steps.push(settle_wake());
                        steps.push(json!({"a": "autoack"}));
                        steps.push(settle());
                        sink.run_script(run, steps, seed);
                    }
                }
            }
        }
    }
    // inbound QoS 2 state is session state too: a message answered PUBREC before the loss and sent again on the resumed
    // session (before its PUBREL) must not be yielded a second time (C09 across a reconnection)
    for (sei, secs) in [(100u32, 0u64), (u32::MAX, 0), (u32::MAX, 5_000)] {
        for variant in 0..3usize {
            let run = match sink.mine() {
                Some(x) => x,
                None => continue,
            };
            let p = Params { fam: "resume".into(), r: Some(10), sei_connect: Some(sei), ..Default::default() };
            let mut steps = vec![p.to_json()];
            steps.push(json!({"a": "call", "op": 1, "h": 0, "spec": {"kind": "sub", "filters": [{"f": "f/1", "qos": 2}]}}));
            steps.push(settle_wake());
            steps.push(json!({"a": "pkt", "pk": {"t": "SUBACK", "id": {"op": 1}, "rcs": [2]}}));
            steps.push(settle_wake());
            let m7 = json!({"t": "PUBLISH", "qos": 2, "id": 7, "dup": 0, "topic": "in/a", "payload": "first", "sids": [{"sub": 1}]});
            steps.push(json!({"a": "pkt", "pk": m7}));
            if variant >= 1 {
                steps.push(json!({"a": "pkt", "pk": {"t": "PUBLISH", "qos": 2, "id": 8, "dup": 0, "topic": "in/x", "payload": "other", "sids": [{"sub": 1}]}}));
            }
            if variant == 2 {
                steps.push(json!({"a": "pkt", "pk": {"t": "PUBREL", "id": 8, "rc": 0}}));
            }
            steps.push(settle_wake());
            steps.push(json!({"a": "eof"}));
            steps.push(settle_wake());
            steps.push(json!({"a": "markdisc", "secs": secs}));
            let mut rc = p.to_json();
            rc["a"] = json!("reconnect");
            steps.push(rc);
            steps.push(poll_ctx());
            steps.push(settle_wake());
            let mut again = m7.clone();
            again["dup"] = json!(1);
            steps.push(json!({"a": "pkt", "pk": again}));
            steps.push(settle_wake());
            steps.push(json!({"a": "pkt", "pk": {"t": "PUBREL", "id": 7, "rc": 0}}));
            steps.push(json!({"a": "pkt", "pk": {"t": "PUBLISH", "qos": 2, "id": 7, "dup": 0, "topic": "in/b", "payload": "second", "sids": [{"sub": 1}]}}));
            steps.push(settle());
            sink.run_script(run, steps, seed);
        }
    }
    sink.finish();
    0
}

// ---------------------------------------------------------------------------------------------
// C10 / C12 across connections: Receive Maximum and Maximum Packet Size are properties of ONE connection. A Context that is
// set up and connected again must obey what the NEW CONNACK announces (65535 / no limit when the property is absent), whether
// or not the session is resumed and whether or not exchanges were outstanding when the first connection was lost.

pub fn reconn(a: &HashMap<String, String>) -> i32 {
    let mut sink = Sink::new(a);
    let seed = seed_of(a);
    let ms: [(Option<u32>, Option<u32>); 6] = [(Some(40), None), (Some(40), Some(20)), (Some(20), Some(40)), (None, Some(20)), (Some(40), Some(40)), (None, None)];
    let rs: [(Option<u16>, Option<u16>); 6] = [(Some(2), None), (None, Some(1)), (Some(1), Some(3)), (Some(3), Some(1)), (Some(2), Some(2)), (None, None)];
    for (m1, m2) in ms {
        for (r1, r2) in rs {
            for (sei, secs) in [(0u32, 0u64), (u32::MAX, 0)] {
                for pre in 0..4usize {
                    let run = match sink.mine() {
                        Some(x) => x,
                        None => continue,
                    };
                    let p1 = Params { fam: "reconn".into(), r: r1, m: m1, sei_connect: Some(sei), auth: run % 4 >= 2, ..Default::default() };
                    let p2 = Params { fam: "reconn".into(), r: r2, m: m2, sei_connect: Some(sei), auth: run % 2 == 1, ..Default::default() };
                    let mut steps = vec![p1.to_json()];
                    // `pre` exchanges outstanding when the connection is lost (the second one between its QoS 2 phases)
                    if pre >= 1 {
                        steps.push(json!({"a": "call", "op": 1, "h": 0, "spec": pub_spec(1, 1, 2)}));
                        steps.push(settle_wake());
                    }
                    if pre >= 2 {
                        steps.push(json!({"a": "call", "op": 2, "h": 0, "spec": pub_spec(2, 2, 2)}));
                        steps.push(settle_wake());
                        steps.push(json!({"a": "pkt", "pk": {"t": "PUBREC", "id": {"op": 2}, "rc": 0}}));
                        if pre == 3 {
                            // the PUBREC is handled but the caller is not polled: the exchange holds its slot while neither its
                            // PUBLISH nor its PUBREL is queued for retransmission
                            steps.push(poll_ctx());
                        } else {
                            steps.push(settle_wake());
                        }
                    }
                    steps.push(json!({"a": "eof"}));
                    steps.push(settle_wake());
                    steps.push(json!({"a": "markdisc", "secs": secs}));
                    let mut rc = p2.to_json();
                    rc["a"] = json!("reconnect");
                    steps.push(rc);
                    steps.push(poll_ctx());
                    steps.push(settle_wake());
                    if run % 2 == 0 {
                        // new publishes before anything re-sent is acknowledged: the exchanges carried over keep their slots
                        for k in 3..6 {
                            steps.push(json!({"a": "call", "op": k, "h": 0, "spec": pub_spec(k, if k == 4 { 2 } else { 1 }, 1)}));
                            steps.push(settle_wake());
                        }
                    }
                    steps.push(json!({"a": "autoack"}));
                    steps.push(settle_wake());
                    steps.push(json!({"a": "autoack"}));
                    steps.push(settle_wake());
                    // size probes around both limits (a QoS 1 PUBLISH built by pub_spec is 10 + n bytes long, a QoS 0 one 8 + n),
                    // each acknowledged at once so that the quota does not interfere
                    let mut k = 10;
                    for (qos, n) in [(1u8, 10usize), (1, 11), (1, 30), (1, 31), (0, 12), (0, 13), (0, 32), (0, 33), (2, 10), (2, 31)] {
                        steps.push(json!({"a": "call", "op": k, "h": 0, "spec": pub_spec(k, qos, n)}));
                        steps.push(settle_wake());
                        steps.push(json!({"a": "autoack"}));
                        steps.push(settle_wake());
                        steps.push(json!({"a": "autoack"}));
                        steps.push(settle_wake());
                        k += 1;
                    }
                    // quota probes: five small QoS 1 publishes without acknowledgements in between, then everything acknowledged
                    // and one more
                    for _ in 0..5 {
                        steps.push(json!({"a": "call", "op": k, "h": 0, "spec": pub_spec(k, 1, 1)}));
                        steps.push(settle_wake());
                        k += 1;
                    }
                    steps.push(json!({"a": "autoack"}));
                    steps.push(settle_wake());
                    steps.push(json!({"a": "call", "op": k, "h": 0, "spec": pub_spec(k, 2, 1)}));
                    steps.push(settle_wake());
                    steps.push(json!({"a": "autoack"}));
                    steps.push(settle_wake());
                    steps.push(json!({"a": "autoack"}));
                    steps.push(settle());
                    sink.run_script(run, steps, seed);
                }
            }
        }
    }
    sink.finish();
    0
}

// ---------------------------------------------------------------------------------------------
// The same Context set up again after its connection ended at an awkward point (C08, C09, C13, C03): in the middle of an
// inbound packet, with packets buffered behind the one that ended run(), or with a write fault exactly while an
// acknowledgement was being written. Nothing of the old connection - unread bytes, an unsent acknowledgement - may leak into
// the new one; what is session state (an inbound QoS 2 identifier already handed to the application) must survive.

pub fn reuse(a: &HashMap<String, String>) -> i32 {
    let mut sink = Sink::new(a);
    let seed = seed_of(a);
    let in_pub = |qos: u8, id: u16, tag: &str, dup: u8| json!({"t": "PUBLISH", "qos": qos, "id": id, "dup": dup, "topic": format!("in/{}", tag), "payload": tag, "sids": [{"sub": 1}]});
    let endings = ["eof-mid-packet", "eof-mid-header", "buffered-behind-disconnect", "wrerr-puback", "wrerr-pubrec", "wrerr-pubcomp", "rderr-mid-packet", "eof-clean"];
    for ending in endings {
        for (sei, secs, mark) in [(u32::MAX, 0u64, true), (0u32, 0, true), (u32::MAX, 0, false)] {
            for twice in [false, true] {
                let run = match sink.mine() {
                    Some(x) => x,
                    None => continue,
                };
                let p = Params { fam: "reuse".into(), r: Some(5), sei_connect: Some(sei), ..Default::default() };
                let mut steps = vec![p.to_json()];
                steps.push(json!({"a": "call", "op": 1, "h": 0, "spec": {"kind": "sub", "filters": [{"f": "f/1", "qos": 2}]}}));
                steps.push(settle_wake());
                steps.push(json!({"a": "pkt", "pk": {"t": "SUBACK", "id": {"op": 1}, "rcs": [2]}}));
                steps.push(settle_wake());
                steps.push(json!({"a": "pkt", "pk": in_pub(1, 3, "a", 0)}));
                steps.push(settle_wake());
                let rounds = if twice { 2 } else { 1 };
                for round in 0..rounds {
                    let id5 = 5 + round as u16;
                    match ending {
                        "eof-mid-packet" | "rderr-mid-packet" => {
                            // the first bytes of a PUBLISH (fixed header, length, part of the topic), then the transport ends
                            steps.push(json!({"a": "raw", "hex": "321400"}));
                            steps.push(settle_wake());
                            steps.push(json!({"a": "raw", "hex": "04696e"}));
                            steps.push(settle_wake());
                            steps.push(json!({"a": if ending == "eof-mid-packet" { "eof" } else { "rderr" }}));
                        }
                        "eof-mid-header" => {
                            // one byte of a packet whose remaining length takes two bytes
                            steps.push(json!({"a": "raw", "hex": "30"}));
                            steps.push(settle_wake());
                            steps.push(json!({"a": "raw", "hex": "9d"}));
                            steps.push(settle_wake());
                            steps.push(json!({"a": "eof"}));
                        }
                        "buffered-behind-disconnect" => {
                            steps.push(json!({"a": "pkts", "pks": [{"t": "DISCONNECT", "rc": 0x8b}, in_pub(1, 4, "lost", 0), {"t": "PINGRESP"}], "cuts": []}));
                        }
                        "wrerr-puback" => {
                            steps.push(json!({"a": "wrmode", "m": "err", "k": 0}));
                            steps.push(json!({"a": "pkt", "pk": in_pub(1, id5, "w1", 0)}));
                        }
                        "wrerr-pubrec" => {
                            steps.push(json!({"a": "wrmode", "m": "err", "k": 0}));
                            steps.push(json!({"a": "pkt", "pk": in_pub(2, id5, "w2", 0)}));
                        }
                        "wrerr-pubcomp" => {
                            steps.push(json!({"a": "pkt", "pk": in_pub(2, id5, "w3", 0)}));
                            steps.push(settle_wake());
                            steps.push(json!({"a": "wrmode", "m": "err", "k": 0}));
                            steps.push(json!({"a": "pkt", "pk": {"t": "PUBREL", "id": id5, "rc": 0}}));
                        }
                        _ => steps.push(json!({"a": "eof"})),
                    }
                    steps.push(settle_wake());
                    if mark {
                        steps.push(json!({"a": "markdisc", "secs": secs}));
                    }
                    let mut rc = p.to_json();
                    rc["a"] = json!("reconnect");
                    steps.push(rc);
                    steps.push(poll_ctx());
                    steps.push(settle_wake());
                    // on the new connection: the broker re-sends what it had not seen acknowledged (DUP set), then new traffic
                    match ending {
                        "wrerr-puback" => steps.push(json!({"a": "pkt", "pk": in_pub(1, id5, "w1", 1)})),
                        "wrerr-pubrec" => steps.push(json!({"a": "pkt", "pk": in_pub(2, id5, "w2", 1)})),
                        "wrerr-pubcomp" => steps.push(json!({"a": "pkt", "pk": {"t": "PUBREL", "id": id5, "rc": 0}})),
                        _ => {}
                    }
                    steps.push(settle_wake());
                    steps.push(json!({"a": "pkt", "pk": in_pub(1, 7 + round as u16, "n1", 0)}));
                    steps.push(settle_wake());
                    if ending == "wrerr-pubrec" {
                        steps.push(json!({"a": "pkt", "pk": in_pub(2, id5, "w2", 1)}));
                        steps.push(settle_wake());
                        steps.push(json!({"a": "pkt", "pk": {"t": "PUBREL", "id": id5, "rc": 0}}));
                        steps.push(settle_wake());
                        steps.push(json!({"a": "pkt", "pk": in_pub(2, id5, "fresh", 0)}));
                        steps.push(settle_wake());
                        steps.push(json!({"a": "pkt", "pk": {"t": "PUBREL", "id": id5, "rc": 0}}));
                        steps.push(settle_wake());
                    }
                    steps.push(json!({"a": "call", "op": 20 + round, "h": 0, "spec": {"kind": "ping"}}));
                    steps.push(settle_wake());
                    steps.push(json!({"a": "pkt", "pk": {"t": "PINGRESP"}}));
                    steps.push(settle_wake());
                }
                steps.push(settle());
                sink.run_script(run, steps, seed);
            }
        }
    }
    sink.finish();
    0
}

// ---------------------------------------------------------------------------------------------
// C07 with a lagging consumer: one stream is not polled while many messages arrive for it (another one is polled
// promptly); every message must still be there, in order, when it is finally drained, and later messages keep arriving.

pub fn backlog(a: &HashMap<String, String>) -> i32 {
    let thorough = tier_of(a);
    let mut sink = Sink::new(a);
    let seed = seed_of(a);
    let sizes: Vec<usize> = if thorough { vec![1, 31, 32, 33, 63, 64, 65, 66, 127, 128, 129, 200, 255, 256, 257, 1000, 1025, 5000] } else { vec![1, 33, 64, 65, 66, 129, 257, 1025] };
    for n in sizes {
        for qmix in 0..3u8 {
            let run = match sink.mine() {
                Some(x) => x,
                None => continue,
            };
            let mut steps = vec![reset("backlog", None, None)];
            for k in 1..=2usize {
                steps.push(json!({"a": "call", "op": k, "h": 0, "spec": {"kind": "sub", "filters": [{"f": format!("f/{}", k), "qos": 2}]}}));
            }
            steps.push(settle_wake());
            for k in 1..=2usize {
                steps.push(json!({"a": "pkt", "pk": {"t": "SUBACK", "id": {"op": k}, "rcs": [2]}}));
            }
            steps.push(settle_wake());
            for i in 0..n {
                let qos = match qmix {
                    0 => 0,
                    1 => (i % 2) as u8,
                    _ => (i % 3) as u8,
                };
                let id = 100 + (i % 50) as u16;
                steps.push(json!({"a": "pkt", "pk": {"t": "PUBLISH", "qos": qos, "id": id, "dup": 0, "topic": format!("b/{}", i), "payload": format!("m{}", i), "sids": [{"sub": 1}]}}));
                if qos == 2 {
                    steps.push(json!({"a": "pkt", "pk": {"t": "PUBREL", "id": id, "rc": 0}}));
                }
                if i % 7 == 3 {
                    steps.push(json!({"a": "pkt", "pk": {"t": "PUBLISH", "qos": 0, "id": 0, "dup": 0, "topic": format!("o/{}", i), "payload": "o", "sids": [{"sub": 2}]}}));
                }
                // only the context and the second stream are polled: the first stream lags behind
                steps.push(poll_ctx());
                if i % 7 == 3 {
                    steps.push(json!({"a": "poll", "t": "st", "k": 2}));
                }
            }
            steps.push(settle());
            steps.push(json!({"a": "pkt", "pk": {"t": "PUBLISH", "qos": 1, "id": 9, "dup": 0, "topic": "b/late", "payload": "late", "sids": [{"sub": 1}]}}));
            steps.push(settle());
            sink.run_script(run, steps, seed);
        }
    }
    sink.finish();
    0
}

// ---------------------------------------------------------------------------------------------
// C11, subscription identifiers beyond 2^16 subscribe() calls: a traced subscribe, 65 534 untraced ones, then traced ones again -
// the identifiers of the traced calls must all differ, and a message for the last one must reach its stream only.

pub fn sidwrap(a: &HashMap<String, String>) -> i32 {
    let mut sink = Sink::new(a);
    let seed = seed_of(a);
    // (16 38x: the traced calls land on both sides of the second step of the identifier's variable byte integer)
    for gap in [16_380u64, 16_381, 65_533, 65_534, 65_535, 65_536] {
        let run = match sink.mine() {
            Some(x) => x,
            None => continue,
        };
        let mut steps = vec![reset("sidwrap", None, None)];
        for k in 1..=2usize {
            steps.push(json!({"a": "call", "op": k, "h": 0, "spec": {"kind": "sub", "filters": [{"f": format!("f/{}", k), "qos": 1}]}}));
            steps.push(settle_wake());
            steps.push(json!({"a": "pkt", "pk": {"t": "SUBACK", "id": {"op": k}, "rcs": [1]}}));
            steps.push(settle_wake());
        }
        steps.push(json!({"a": "burnsub", "n": gap}));
        for k in 3..=6usize {
            steps.push(json!({"a": "call", "op": k, "h": 0, "spec": {"kind": "sub", "filters": [{"f": format!("f/{}", k), "qos": 1}]}}));
            steps.push(settle_wake());
            steps.push(json!({"a": "pkt", "pk": {"t": "SUBACK", "id": {"op": k}, "rcs": [1]}}));
            steps.push(settle_wake());
        }
        for k in [6usize, 1, 4] {
            steps.push(json!({"a": "pkt", "pk": {"t": "PUBLISH", "qos": 1, "id": 40 + k as u16, "dup": 0, "topic": format!("m/{}", k), "payload": format!("for{}", k), "sids": [{"sub": k}]}}));
            steps.push(settle_wake());
        }
        steps.push(settle());
        sink.run_script(run, steps, seed);
    }
    sink.finish();
    0
}

// ---------------------------------------------------------------------------------------------
// C07 / C08 with many overlapping subscriptions: one PUBLISH carries the identifiers of 1..9 subscriptions (each made by its
// own subscribe() call), in ascending, descending and rotated order, before and after some of the streams were dropped.

pub fn manysids(a: &HashMap<String, String>) -> i32 {
    let mut sink = Sink::new(a);
    let seed = seed_of(a);
    for n in 1..=9usize {
        for dropset in 0..3usize {
            let run = match sink.mine() {
                Some(x) => x,
                None => continue,
            };
            let mut steps = vec![reset("manysids", None, None)];
            for k in 1..=n {
                steps.push(json!({"a": "call", "op": k, "h": 0, "spec": {"kind": "sub", "filters": [{"f": format!("f/{}", k), "qos": 2}]}}));
                steps.push(settle_wake());
                steps.push(json!({"a": "pkt", "pk": {"t": "SUBACK", "id": {"op": k}, "rcs": [2]}}));
                steps.push(settle_wake());
            }
            let asc: Vec<usize> = (1..=n).collect();
            let desc: Vec<usize> = (1..=n).rev().collect();
            let rot: Vec<usize> = (1..=n).map(|i| (i + n / 2) % n + 1).collect();
            let mut msg = 0usize;
            let mut publish_all = |steps: &mut Vec<Value>| {
                for (oi, order) in [&asc, &desc, &rot].iter().enumerate() {
                    msg += 1;
                    let qos = ((msg + oi + dropset) % 3) as u8;
                    let sids: Vec<Value> = order.iter().map(|k| json!({"sub": k})).collect();
                    steps.push(json!({"a": "pkt", "pk": {"t": "PUBLISH", "qos": qos, "id": 20 + msg as u16, "dup": 0, "topic": format!("m/{}", msg), "payload": format!("p{}", msg), "sids": sids}}));
                    if qos == 2 {
                        // re-delivery before the release (with and without DUP): acknowledged again, yielded to nobody again
                        steps.push(settle_wake());
                        steps.push(json!({"a": "pkt", "pk": {"t": "PUBLISH", "qos": 2, "id": 20 + msg as u16, "dup": (msg % 2) as u8, "topic": format!("m/{}", msg), "payload": format!("p{}", msg), "sids": order.iter().map(|k| json!({"sub": k})).collect::<Vec<Value>>()}}));
                        steps.push(settle_wake());
                        steps.push(json!({"a": "pkt", "pk": {"t": "PUBREL", "id": 20 + msg as u16, "rc": 0}}));
                    }
                    steps.push(settle_wake());
                }
            };
            publish_all(&mut steps);
            let dropped: Vec<usize> = match dropset {
                0 => vec![],
                1 => vec![1, n],
                _ => (1..=n).filter(|k| k % 2 == 0).collect(),
            };
            for k in dropped {
                steps.push(json!({"a": "drop", "t": "st", "k": k}));
            }
            publish_all(&mut steps);
            publish_all(&mut steps);
            steps.push(settle());
            sink.run_script(run, steps, seed);
        }
    }
    sink.finish();
    0
}

// ---------------------------------------------------------------------------------------------
// C11 / C05 with operations started before connect() has completed: the handle exists as soon as the Context does, requests
// wait in the channel and are written once run() serves the connection. Identifiers handed out before and after the
// handshake must all differ while the operations are outstanding, whatever the CONNACK says (Session Present 0 or 1).

pub fn earlyops(a: &HashMap<String, String>) -> i32 {
    let mut sink = Sink::new(a);
    let seed = seed_of(a);
    let kinds = ["pub1", "sub", "pub2", "unsub", "ping"];
    for nearly in 0..=4usize {
        for rot in 0..kinds.len() {
            for auth in [false, true] {
                let run = match sink.mine() {
                    Some(x) => x,
                    None => continue,
                };
                let p = Params { fam: "earlyops".into(), r: Some(10), defer: true, auth, ..Default::default() };
                let mut steps = vec![p.to_json()];
                let spec_of = |k: usize, kind: &str| -> Value {
                    match kind {
                        "pub1" => pub_spec(k, 1, 2),
                        "pub2" => pub_spec(k, 2, 2),
                        "sub" => json!({"kind": "sub", "filters": [{"f": format!("f/{}", k), "qos": 1}]}),
                        "unsub" => json!({"kind": "unsub", "filters": [{"f": format!("f/{}", k)}]}),
                        _ => json!({"kind": "ping"}),
                    }
                };
                let mut k = 0usize;
                for i in 0..nearly {
                    k += 1;
                    steps.push(json!({"a": "call", "op": k, "h": 0, "spec": spec_of(k, kinds[(rot + i) % kinds.len()])}));
                    steps.push(poll_op(k)); // first poll: identifiers allocated, request queued - nobody serves the channel yet
                }
                let mut hs = p.to_json();
                hs["a"] = json!("handshake");
                steps.push(hs);
                steps.push(poll_ctx());
                for i in 0..4 {
                    k += 1;
                    steps.push(json!({"a": "call", "op": k, "h": 0, "spec": spec_of(k, kinds[(rot + nearly + i) % kinds.len()])}));
                    steps.push(settle_wake());
                }
                // everything is still outstanding here; now the broker answers
                for _ in 0..3 {
                    steps.push(json!({"a": "autoack"}));
                    steps.push(settle_wake());
                }
                steps.push(settle());
                sink.run_script(run, steps, seed);
            }
        }
    }
    sink.finish();
    0
}

// ---------------------------------------------------------------------------------------------
// C01 with a writer that stalls inside a packet: the transport takes the first b bytes of a request and then returns Pending;
// meanwhile the caller gives up (drops its future) or not, further requests are queued; then the transport goes on. Whatever
// happens to the abandoned request, the wire must remain a concatenation of whole packets in submission order.

pub fn cutwrite(a: &HashMap<String, String>) -> i32 {
    let thorough = tier_of(a);
    let mut sink = Sink::new(a);
    let seed = seed_of(a);
    let firsts: Vec<Value> = vec![
        pub_spec(1, 0, 5),
        pub_spec(1, 0, 200),
        pub_spec(1, 1, 5),
        pub_spec(1, 2, 40),
        json!({"kind": "disc", "reason": 4, "rs": "bye"}),
        json!({"kind": "sub", "filters": [{"f": "f/1", "qos": 1}]}),
        json!({"kind": "unsub", "filters": [{"f": "f/1"}]}),
        json!({"kind": "ping"}),
    ];
    let budgets: Vec<usize> = if thorough { (1..=24).collect() } else { vec![1, 2, 3, 4, 6, 9, 13] };
    for first in &firsts {
        for b in &budgets {
            for dropit in [false, true] {
                let run = match sink.mine() {
                    Some(x) => x,
                    None => continue,
                };
                let mut steps = vec![reset("cutwrite", Some(5), None)];
                steps.push(json!({"a": "clone", "from": 0}));
                steps.push(json!({"a": "call", "op": 1, "h": 0, "spec": first}));
                steps.push(poll_op(1));
                steps.push(json!({"a": "wrmode", "m": "budget", "k": b}));
                steps.push(poll_ctx());
                if dropit {
                    steps.push(json!({"a": "drop", "t": "op", "k": 1}));
                }
                steps.push(json!({"a": "call", "op": 2, "h": 1, "spec": pub_spec(2, 0, 3)}));
                steps.push(poll_op(2));
                steps.push(json!({"a": "call", "op": 3, "h": 1, "spec": {"kind": "ping"}}));
                steps.push(poll_op(3));
                steps.push(poll_ctx());
                steps.push(poll_ctx());
                steps.push(json!({"a": "wrmode", "m": "accept", "k": 0}));
                steps.push(settle_wake());
                steps.push(json!({"a": "autoack"}));
                steps.push(settle_wake());
                steps.push(json!({"a": "autoack"}));
                steps.push(settle());
                sink.run_script(run, steps, seed);
            }
        }
    }
    sink.finish();
    0
}

// ---------------------------------------------------------------------------------------------
// C09 / C06 / C10 with the SAME packet identifier in use in both directions at once: the client's identifiers and the broker's
// are independent spaces. An outbound QoS 1/2 exchange and an inbound QoS 2 exchange carry the same number; the steps of the two
// are interleaved in every order (each exchange keeps its own order), with a re-delivery of the inbound message before its PUBREL.

pub fn crossid(a: &HashMap<String, String>) -> i32 {
    let mut sink = Sink::new(a);
    let seed = seed_of(a);
    for out_qos in [1u8, 2] {
        // outbound steps (after the PUBLISH is on the wire) and inbound steps, merged in every order
        let outb: Vec<Value> = if out_qos == 1 {
            vec![json!({"a": "pkt", "pk": {"t": "PUBACK", "id": {"op": 2}, "rc": 0}})]
        } else {
            vec![json!({"a": "pkt", "pk": {"t": "PUBREC", "id": {"op": 2}, "rc": 0}}), json!({"a": "pkt", "pk": {"t": "PUBCOMP", "id": {"op": 2}, "rc": 0}})]
        };
        let m = |dup: u8, tag: &str| json!({"a": "pkt", "pk": {"t": "PUBLISH", "qos": 2, "id": {"op": 2}, "dup": dup, "topic": format!("x/{}", tag), "payload": tag, "sids": [{"sub": 1}]}});
        let inb: Vec<Value> = vec![m(0, "one"), m(1, "one"), json!({"a": "pkt", "pk": {"t": "PUBREL", "id": {"op": 2}, "rc": 0}}), m(0, "two"), json!({"a": "pkt", "pk": {"t": "PUBREL", "id": {"op": 2}, "rc": 0}})];
        // all merges: choose the positions of the outbound steps among the combined sequence
        let total = outb.len() + inb.len();
        for mask in 0u32..(1 << total) {
            if mask.count_ones() as usize != outb.len() {
                continue;
            }
            let run = match sink.mine() {
                Some(x) => x,
                None => continue,
            };
            let mut steps = vec![reset("crossid", Some(3), None)];
            steps.push(json!({"a": "call", "op": 1, "h": 0, "spec": {"kind": "sub", "filters": [{"f": "f/1", "qos": 2}]}}));
            steps.push(settle_wake());
            steps.push(json!({"a": "pkt", "pk": {"t": "SUBACK", "id": {"op": 1}, "rcs": [2]}}));
            steps.push(settle_wake());
            steps.push(json!({"a": "call", "op": 2, "h": 0, "spec": pub_spec(2, out_qos, 3)}));
            steps.push(settle_wake());
            let (mut oi, mut ii) = (0usize, 0usize);
            for pos in 0..total {
                if mask >> pos & 1 == 1 {
                    steps.push(outb[oi].clone());
                    oi += 1;
                } else {
                    steps.push(inb[ii].clone());
                    ii += 1;
                }
                steps.push(settle_wake());
            }
            // afterwards both spaces are free again
            steps.push(json!({"a": "call", "op": 3, "h": 0, "spec": pub_spec(3, 1, 1)}));
            steps.push(settle_wake());
            steps.push(json!({"a": "autoack"}));
            steps.push(settle());
            sink.run_script(run, steps, seed);
        }
    }
    sink.finish();
    0
}

// ---------------------------------------------------------------------------------------------
// C11 after requests the handle refuses by itself (a subscribe / unsubscribe without any topic filter): the refusal must leave
// nothing behind in the handle - the handle is cloned afterwards, and the original and the clones start operations that are
// outstanding together.

pub fn badopts(a: &HashMap<String, String>) -> i32 {
    let mut sink = Sink::new(a);
    let seed = seed_of(a);
    for bad in ["sub", "unsub", "both"] {
        for nclones in 1..=3usize {
            for before in [false, true] {
                let run = match sink.mine() {
                    Some(x) => x,
                    None => continue,
                };
                let mut steps = vec![reset("badopts", Some(10), None)];
                let mut k = 0usize;
                if before {
                    k += 1;
                    steps.push(json!({"a": "call", "op": k, "h": 0, "spec": pub_spec(k, 1, 1)}));
                    steps.push(settle_wake());
                }
                for kind in ["sub", "unsub"] {
                    if bad == kind || bad == "both" {
                        k += 1;
                        steps.push(json!({"a": "call", "op": k, "h": 0, "spec": {"kind": kind, "filters": []}}));
                        steps.push(poll_op(k));
                    }
                }
                for _ in 0..nclones {
                    steps.push(json!({"a": "clone", "from": 0}));
                }
                let kinds = ["pub1", "pub2", "unsub", "sub"];
                for h in 0..=nclones {
                    k += 1;
                    let spec = match kinds[h % 4] {
                        "pub1" => pub_spec(k, 1, 1),
                        "pub2" => pub_spec(k, 2, 1),
                        "unsub" => json!({"kind": "unsub", "filters": [{"f": format!("f/{}", k)}]}),
                        _ => json!({"kind": "sub", "filters": [{"f": format!("f/{}", k), "qos": 0}]}),
                    };
                    steps.push(json!({"a": "call", "op": k, "h": h, "spec": spec}));
                    steps.push(poll_op(k));
                }
                steps.push(settle_wake());
                for _ in 0..3 {
                    steps.push(json!({"a": "autoack"}));
                    steps.push(settle_wake());
                }
                steps.push(settle());
                sink.run_script(run, steps, seed);
            }
        }
    }
    sink.finish();
    0
}

// ---------------------------------------------------------------------------------------------
// C16 with a blocked writer, on scripts without any race (one request, nothing inbound until it is written): while the write
// is refused the context is polled 0..8 more times although no waker fired; then the transport accepts again. Each run is
// validated as usual, and its outcome is compared with the run without extra polls (reported as a run of its own).

pub fn blockcmp(a: &HashMap<String, String>) -> i32 {
    let mut sink = Sink::new(a);
    let seed = seed_of(a);
    let reqs: Vec<Value> = vec![
        json!({"kind": "ping"}),
        pub_spec(1, 0, 1),
        pub_spec(1, 1, 1),
        pub_spec(1, 2, 30),
        pub_spec(1, 1, 300),
        json!({"kind": "sub", "filters": [{"f": "f/1", "qos": 1}]}),
        json!({"kind": "disc"}),
    ];
    let mk = |req: &Value, nspur: usize, budget: usize| -> Vec<Value> {
        let mut steps = vec![reset("blockcmp", Some(5), None)];
        steps.push(json!({"a": "call", "op": 1, "h": 0, "spec": req}));
        steps.push(poll_op(1));
        if budget == 0 {
            steps.push(json!({"a": "wrmode", "m": "block", "k": 0}));
        } else {
            steps.push(json!({"a": "wrmode", "m": "budget", "k": budget}));
        }
        steps.push(poll_ctx());
        for _ in 0..nspur {
            steps.push(poll_ctx()); // no waker has fired: the writer is still refusing
        }
        steps.push(json!({"a": "wrmode", "m": "accept", "k": 0}));
        steps.push(settle_wake());
        steps.push(json!({"a": "autoack"}));
        steps.push(settle_wake());
        steps.push(json!({"a": "autoack"}));
        steps.push(settle());
        steps
    };
    let run_it = |steps: &[Value]| -> (Vec<String>, Value) {
        let p = Params::from_json(&steps[0]);
        let mut rng = StdRng::seed_from_u64(seed);
        let mut s = start(&p);
        for st in &steps[1..] {
            exec_step(&mut s, &mut rng, st);
        }
        (s.trace.clone(), outcome(&s))
    };
    // the same on the reading side: the acknowledgement arrives in two fragments, the context is polled 0..8 times in between
    // without a wake-up (the outcome is that of the run without such polls: the fragment waits in the framer)
    let mk_rd = |req: &Value, nspur: usize, at: usize| -> Vec<Value> {
        let mut steps = vec![reset("blockcmp", Some(5), None)];
        steps.push(json!({"a": "call", "op": 1, "h": 0, "spec": req}));
        steps.push(settle_wake());
        let t = match (req["kind"].as_str().unwrap_or(""), req["qos"].as_u64().unwrap_or(0)) {
            ("ping", _) => "PINGRESP",
            ("sub", _) => "SUBACK",
            (_, 2) => "PUBREC",
            _ => "PUBACK",
        };
        let mut pk = json!({"t": t, "id": {"op": 1}, "rc": 0});
        if t == "SUBACK" {
            pk["rcs"] = json!([1]);
        }
        steps.push(json!({"a": "frag", "pk": pk, "at": at, "spur": nspur}));
        steps.push(settle_wake());
        steps.push(json!({"a": "autoack"}));
        steps.push(settle());
        steps
    };
    for req in [&reqs[0], &reqs[2], &reqs[3], &reqs[5]] {
        for at in [1usize, 2, 3] {
            if req["kind"] == "ping" && at > 1 {
                continue;
            }
            let (_, o0) = run_it(&mk_rd(req, 0, at));
            for nspur in 0..=8usize {
                let run = match sink.mine() {
                    Some(x) => x,
                    None => continue,
                };
                let mut steps = mk_rd(req, nspur, at);
                steps[0]["run"] = json!(run);
                let (lines, o) = run_it(&steps);
                sink.lines(run, &lines, Value::Array(steps.clone()));
                let same = o == o0;
                let detail = if same { String::new() } else { first_diff(&o0, &o) };
                let cmp = vec![
                    json!({"e": "reset", "run": run + 10_000_000, "fam": "blockcmp", "R": 5, "M": 0, "sei": 0, "seik": "zero", "disc": "spur",
                           "mode": if cfg!(debug_assertions) { "dev" } else { "release" }, "ok": 1, "recon": 0}).to_string(),
                    json!({"e": "disccmp", "variant": format!("rdspur{}", nspur), "same": same as u8, "detail": detail}).to_string(),
                ];
                sink.lines(run + 10_000_000, &cmp, Value::Array(steps));
            }
        }
    }
    for req in &reqs {
        for budget in [0usize, 1, 3] {
            let (_, o0) = run_it(&mk(req, 0, budget));
            for nspur in 0..=8usize {
                let run = match sink.mine() {
                    Some(x) => x,
                    None => continue,
                };
                let mut steps = mk(req, nspur, budget);
                steps[0]["run"] = json!(run);
                let (lines, o) = run_it(&steps);
                sink.lines(run, &lines, Value::Array(steps.clone()));
                let same = o == o0;
                let detail = if same { String::new() } else { first_diff(&o0, &o) };
                let cmp = vec![
                    json!({"e": "reset", "run": run + 10_000_000, "fam": "blockcmp", "R": 5, "M": 0, "sei": 0, "seik": "zero", "disc": "spur",
                           "mode": if cfg!(debug_assertions) { "dev" } else { "release" }, "ok": 1, "recon": 0}).to_string(),
                    json!({"e": "disccmp", "variant": format!("spur{}", nspur), "same": same as u8, "detail": detail}).to_string(),
                ];
                sink.lines(run + 10_000_000, &cmp, Value::Array(steps));
            }
        }
    }
    sink.finish();
    0
}

// ---------------------------------------------------------------------------------------------
// C11: requests that carry no packet identifier (QoS 0 publishes, pings) between two that do. However many of them there are,
// the second identifier-carrying operation must not get the identifier of the first, which is still outstanding.

pub fn q0wrap(a: &HashMap<String, String>) -> i32 {
    let mut sink = Sink::new(a);
    let seed = seed_of(a);
    for n in [0u64, 1, 300, 65_533, 65_534, 65_535, 65_536, 131_070] {
        let run = match sink.mine() {
            Some(x) => x,
            None => continue,
        };
        let mut steps = vec![reset("q0wrap", None, None)];
        steps.push(json!({"a": "call", "op": 1, "h": 0, "spec": pub_spec(1, 1, 1)}));
        steps.push(settle_wake());
        steps.push(json!({"a": "call", "op": 2, "h": 0, "spec": {"kind": "sub", "filters": [{"f": "f/2", "qos": 0}]}}));
        steps.push(settle_wake());
        steps.push(json!({"a": "burn0", "n": n}));
        steps.push(json!({"a": "call", "op": 3, "h": 0, "spec": pub_spec(3, 2, 1)}));
        steps.push(settle_wake());
        steps.push(json!({"a": "call", "op": 4, "h": 0, "spec": {"kind": "unsub", "filters": [{"f": "f/4"}]}}));
        steps.push(settle_wake());
        for _ in 0..3 {
            steps.push(json!({"a": "autoack"}));
            steps.push(settle_wake());
        }
        steps.push(settle());
        sink.run_script(run, steps, seed);
    }
    sink.finish();
    0
}

// ---------------------------------------------------------------------------------------------
// C08, order of the acknowledgements when several packets arrive in ONE read: every sequence of 2..4 packets over
// {PUBLISH QoS 1, PUBLISH QoS 2, its PUBREL, PUBLISH QoS 0, PINGRESP}, delivered as a single chunk (and, for comparison,
// cut after its first byte): the acknowledgements must come out in the order the packets arrived.

pub fn oneread(a: &HashMap<String, String>) -> i32 {
    let mut sink = Sink::new(a);
    let seed = seed_of(a);
    let mut seqs: Vec<Vec<u8>> = vec![];
    let mut frontier: Vec<Vec<u8>> = vec![vec![]];
    for _ in 0..4 {
        let mut nf = vec![];
        for s in &frontier {
            for x in 0..5u8 {
                let mut t = s.clone();
                t.push(x);
                nf.push(t);
            }
        }
        seqs.extend(nf.iter().cloned());
        frontier = nf;
    }
    for sq in seqs {
        if sq.len() < 2 {
            continue;
        }
        let run = match sink.mine() {
            Some(x) => x,
            None => continue,
        };
        let mut steps = vec![reset("oneread", None, None)];
        steps.push(json!({"a": "call", "op": 1, "h": 0, "spec": {"kind": "sub", "filters": [{"f": "f/1", "qos": 2}]}}));
        steps.push(json!({"a": "call", "op": 2, "h": 0, "spec": {"kind": "ping"}}));
        steps.push(settle_wake());
        steps.push(json!({"a": "pkt", "pk": {"t": "SUBACK", "id": {"op": 1}, "rcs": [2]}}));
        steps.push(settle_wake());
        let mut pks = vec![];
        for (i, x) in sq.iter().enumerate() {
            pks.push(match x {
                0 => json!({"t": "PUBLISH", "qos": 1, "id": 5, "dup": 0, "topic": format!("o/{}", i), "payload": "a", "sids": [{"sub": 1}]}),
                1 => json!({"t": "PUBLISH", "qos": 2, "id": 3, "dup": (i % 2) as u8, "topic": "o/q2", "payload": "b", "sids": [{"sub": 1}]}),
                2 => json!({"t": "PUBREL", "id": 3, "rc": 0}),
                3 => json!({"t": "PUBLISH", "qos": 0, "id": 0, "dup": 0, "topic": format!("o/{}", i), "payload": "c", "sids": [{"sub": 1}]}),
                _ => json!({"t": "PINGRESP"}),
            });
        }
        steps.push(json!({"a": "pkts", "pks": pks, "cuts": if run % 4 == 3 { vec![1] } else { vec![] }}));
        steps.push(settle());
        sink.run_script(run, steps, seed);
    }
    sink.finish();
    0
}

// ---------------------------------------------------------------------------------------------
// C03: framing under every chunking

struct StreamPk {
    bytes: Vec<u8>,
    abs: Value,
}

fn mk(pk: &Pk, form: u8) -> StreamPk {
    let b = mqtt::encode(pk, form);
    let abs = mqtt::decode(&b).map(|d| d.abs()).unwrap_or(crate::sim::empty_abs());
    StreamPk { bytes: b, abs }
}

/// Emits one run: set-up (a subscription with identifier `sid`, `npings` pings and `npubs` QoS 1 publishes
/// outstanding), then the byte stream split at `cuts` (offsets), either all at once or one chunk per
/// quiescent point.
/// `--sweep 1`: between the chunks every task is polled once more although no waker fired (the sweeping discipline of C16)
static CHUNK_SWEEP: std::sync::atomic::AtomicBool = std::sync::atomic::AtomicBool::new(false);

fn chunk_run(sink: &mut Sink, run: usize, fam: &str, pks: &[StreamPk], cuts: &[usize], upfront: bool, npings: usize, npubs: usize, seed: u64) {
    let sweep = CHUNK_SWEEP.load(std::sync::atomic::Ordering::Relaxed);
    let p = Params { run, fam: fam.into(), r: Some(50), ..Default::default() };
    let mut rng = StdRng::seed_from_u64(seed);
    let mut s = start(&p);
    let mut script = vec![p.to_json()];
    let mut step = |s: &mut Sim, rng: &mut StdRng, st: Value| {
        exec_step(s, rng, &st);
        script.push(st);
    };
    step(&mut s, &mut rng, json!({"a": "call", "op": 1, "h": 0, "spec": {"kind": "sub", "filters": [{"f": "f/1", "qos": 2}]}}));
    step(&mut s, &mut rng, settle_wake());
    step(&mut s, &mut rng, json!({"a": "pkt", "pk": {"t": "SUBACK", "id": {"op": 1}, "rcs": [2]}}));
    for i in 0..npings {
        step(&mut s, &mut rng, json!({"a": "call", "op": 100 + i, "h": 0, "spec": {"kind": "ping"}}));
    }
    for i in 0..npubs {
        step(&mut s, &mut rng, json!({"a": "call", "op": 200 + i, "h": 0, "spec": pub_spec(200 + i, 1, 1)}));
    }
    step(&mut s, &mut rng, settle_wake());
    // the stream
    let all: Vec<u8> = pks.iter().flat_map(|p| p.bytes.iter().cloned()).collect();
    let mut ends = vec![];
    let mut off = 0;
    for p in pks {
        off += p.bytes.len();
        ends.push(off);
    }
    let mut bounds: Vec<usize> = cuts.iter().cloned().filter(|c| *c > 0 && *c < all.len()).collect();
    bounds.sort();
    bounds.dedup();
    bounds.push(all.len());
    let mut prev = 0usize;
    for b in bounds {
        let done: Vec<Value> = pks.iter().zip(ends.iter()).filter(|(_, e)| **e > prev && **e <= b).map(|(p, _)| p.abs.clone()).collect();
        step(&mut s, &mut rng, json!({"a": "raw", "hex": crate::sim::hex(&all[prev..b]), "pks": done}));
        prev = b;
        if !upfront {
            step(&mut s, &mut rng, if sweep { settle() } else { settle_wake() });
        }
    }
    step(&mut s, &mut rng, settle());
    let lines = s.trace.clone();
    let sweep_outcome = if sweep { Some(outcome(&s)) } else { None };
    drop(step);
    sink.lines(run, &lines, Value::Array(script.clone()));
    if let Some(o_sweep) = sweep_outcome {
        // C16, third clause, on a script without any race (only the reader is involved): the same script with wake-only settles
        // must end with the same outcome. Reported as a run of its own (the sweeping run above may already have diverged).
        let wake_script: Vec<Value> = script
            .iter()
            .cloned()
            .map(|mut st| {
                if st["a"] == "settle" {
                    st["sweep"] = json!(false);
                }
                st
            })
            .collect();
        let mut rng2 = StdRng::seed_from_u64(seed);
        let mut s2 = start(&p);
        for st in &wake_script[1..wake_script.len() - 1] {
            exec_step(&mut s2, &mut rng2, st);
        }
        exec_step(&mut s2, &mut rng2, &settle()); // the last settle sweeps in both (everything has been delivered by then)
        let o_wake = outcome(&s2);
        let same = o_wake == o_sweep;
        let detail = if same { String::new() } else { first_diff(&o_wake, &o_sweep) };
        let cmp = vec![
            json!({"e": "reset", "run": run + 10_000_000, "fam": fam, "R": 50, "M": 0, "sei": 0, "seik": "zero", "disc": "sweep",
                   "mode": if cfg!(debug_assertions) { "dev" } else { "release" }, "ok": 1, "recon": 0}).to_string(),
            json!({"e": "disccmp", "variant": "sweep", "same": same as u8, "detail": detail}).to_string(),
        ];
        sink.lines(run + 10_000_000, &cmp, Value::Array(script));
    }
}

fn in_publish(qos: u8, id: u16, n: usize, tag: usize) -> Pk {
    let mut m = Pk::new(mqtt::PUBLISH);
    m.flags = qos << 1;
    if qos > 0 {
        m.id = Some(id);
    }
    m.topic = format!("c/{}", tag).into_bytes();
    m.payload = crate::opts::fill_bin(&format!("c{}", tag), n);
    m.props.push(Prop { id: 0x0b, v: PV::Vbi(1) });
    m
}

pub fn chunk(a: &HashMap<String, String>) -> i32 {
    let thorough = tier_of(a);
    let mode = a.get("mode").cloned().unwrap_or("exh".into());
    CHUNK_SWEEP.store(a.get("sweep").map(|s| s == "1").unwrap_or(false), std::sync::atomic::Ordering::Relaxed);
    let mut sink = Sink::new(a);
    let seed = seed_of(a);
    if mode == "exh" {
        // every composition of every short stream
        let maxbytes = if thorough { 13 } else { 10 };
        // alphabet: 0 = PINGRESP (2 bytes), 1 = PUBREL id 5 (4 bytes), 2 = PUBACK short form (4 bytes), 3 = PUBLISH QoS 0 minimal (8 bytes)
        let mut seqs: Vec<Vec<u8>> = vec![];
        let mut frontier: Vec<Vec<u8>> = vec![vec![]];
        for _ in 0..4 {
            let mut nf = vec![];
            for s in &frontier {
                for x in 0..4u8 {
                    let mut t = s.clone();
                    t.push(x);
                    nf.push(t);
                }
            }
            seqs.extend(nf.iter().cloned());
            frontier = nf;
        }
        for sq in seqs {
            let npings = sq.iter().filter(|x| **x == 0).count();
            let npubs = sq.iter().filter(|x| **x == 2).count();
            let mut pks = vec![];
            let mut pubi = 0u16;
            for (i, x) in sq.iter().enumerate() {
                pks.push(match x {
                    0 => mk(&Pk::new(mqtt::PINGRESP), 9),
                    1 => mk(&session::ack(mqtt::PUBREL, 5 + i as u16, 0), 2),
                    2 => {
                        pubi += 1;
                        // identifiers of the outstanding publishes: the subscribe took 1, the publishes follow
                        mk(&session::ack(mqtt::PUBACK, 1 + pubi, 0), 2)
                    }
                    _ => {
                        let mut m = Pk::new(mqtt::PUBLISH);
                        m.topic = b"c".to_vec();
                        m.props.push(Prop { id: 0x0b, v: PV::Vbi(1) });
                        m.payload = vec![b'a' + i as u8];
                        mk(&m, 9)
                    }
                });
            }
            let total: usize = pks.iter().map(|p| p.bytes.len()).sum();
            if total > maxbytes {
                continue;
            }
            for mask in 0..(1u32 << (total - 1)) {
                for upfront in [true, false] {
                    let run = match sink.mine() {
                        Some(x) => x,
                        None => continue,
                    };
                    let cuts: Vec<usize> = (1..total).filter(|i| mask >> (i - 1) & 1 == 1).collect();
                    chunk_run(&mut sink, run, "chunk-exh", &pks, &cuts, upfront, npings, npubs, seed);
                }
            }
        }
    } else {
        // long streams: packets from 2 bytes to several KiB, remaining lengths of 1, 2 and 3 bytes
        let sizes: Vec<(u8, usize)> = if thorough {
            vec![(1, 90), (0, 600), (1, 3000), (0, 130), (2, 505), (1, 17000), (0, 1010), (1, 1530)]
        } else {
            vec![(1, 90), (0, 600), (1, 3000), (2, 505), (0, 16400)]
        };
        let mut pks = vec![];
        for (i, (q, n)) in sizes.iter().enumerate() {
            pks.push(mk(&in_publish(*q, 10 + i as u16, *n, i), 9));
            if i % 2 == 0 {
                pks.push(mk(&Pk::new(mqtt::PINGRESP), 9));
            }
            if i % 3 == 1 {
                pks.push(mk(&session::ack(mqtt::PUBREL, 77, 0), 2));
            }
        }
        let npings = pks.iter().filter(|p| p.abs["t"] == "PINGRESP").count();
        let total: usize = pks.iter().map(|p| p.bytes.len()).sum();
        let mut ends = vec![];
        let mut off = 0;
        for p in &pks {
            off += p.bytes.len();
            ends.push(off);
        }
        let mut rng = StdRng::seed_from_u64(seed ^ 0xc0ffee);
        let mut cases: Vec<Vec<usize>> = vec![];
        // (a) single cuts: near every packet boundary and every 512-multiple; a stride sample (all positions when thorough)
        let mut interesting: Vec<usize> = vec![];
        for e in &ends {
            for d in 0..=6usize {
                interesting.push(e.saturating_sub(d));
                interesting.push(e + d);
            }
        }
        let mut m = 512;
        while m < total {
            for d in 0..=2usize {
                interesting.push(m - d);
                interesting.push(m + d);
            }
            m += 512;
        }
        interesting.retain(|c| *c > 0 && *c < total);
        interesting.sort();
        interesting.dedup();
        for c in &interesting {
            cases.push(vec![*c]);
        }
        let stride = if thorough { 1 } else { 41 };
        let mut c = 1;
        while c < total {
            cases.push(vec![c]);
            c += stride;
        }
        // (b) pairs of cuts around boundaries
        for (i, c1) in interesting.iter().enumerate() {
            for c2 in interesting.iter().skip(i + 1) {
                if c2 - c1 <= 5 || (thorough && rng.gen_range(0..40) == 0) || (!thorough && rng.gen_range(0..400) == 0) {
                    cases.push(vec![*c1, *c2]);
                }
            }
        }
        // (c) byte-wise throughout, fixed-size chunks, and reads that fill the caller's buffer exactly
        cases.push((1..total).collect());
        for sz in [2usize, 3, 5, 7, 64, 511, 512, 513, 1023, 1024, 1025, 2048] {
            cases.push((1..total).filter(|i| i % sz == 0).collect());
        }
        for e in &ends {
            // everything up to 0..5 bytes into the next packet arrives in reads of >= 512 bytes
            for d in 0..=5usize {
                let stop = e + d;
                if stop >= total {
                    continue;
                }
                let mut cuts: Vec<usize> = vec![];
                let mut pos = stop;
                while pos > 512 {
                    cuts.push(pos);
                    pos -= 512;
                }
                cuts.push(stop);
                cases.push(cuts);
            }
        }
        // (d) seeded random chunkings
        for _ in 0..(if thorough { 3000 } else { 300 }) {
            let k = rng.gen_range(1..40);
            cases.push((0..k).map(|_| rng.gen_range(1..total)).collect());
        }
        for cuts in cases {
            for upfront in [true, false] {
                if cuts.len() > 2000 && !upfront {
                    continue;
                }
                let run = match sink.mine() {
                    Some(x) => x,
                    None => continue,
                };
                chunk_run(&mut sink, run, "chunk-long", &pks, &cuts, upfront, npings, 0, seed);
            }
        }
        // (e) reads that fill the buffer the framer offers *and* end exactly on a packet boundary: streams whose packet
        // boundaries fall on 512-byte steps (one packet of exactly 512 bytes; 32 packets of 16 bytes; a long packet
        // followed by packets that end where the follow-up read of `packet.end` bytes ends), read in aligned chunks
        let exact = |total: usize, qos: u8, id: u16, tag: usize| -> StreamPk {
            // PUBLISH with topic "c/<tag>", subscription identifier 1, payload chosen so that the packet is `total` bytes long
            let mut n = total.saturating_sub(20);
            loop {
                let p = mk(&in_publish(qos, id, n, tag), 9);
                if p.bytes.len() == total {
                    return p;
                }
                if p.bytes.len() > total {
                    if n == 0 {
                        return p; // cannot be made smaller
                    }
                    n = n.saturating_sub(p.bytes.len() - total);
                } else {
                    n += total - p.bytes.len();
                }
            }
        };
        let mut aligned: Vec<(Vec<StreamPk>, Vec<usize>)> = vec![];
        for t in [512usize, 1024, 511, 513] {
            aligned.push((vec![exact(t, 0, 1, 1)], vec![]));
            aligned.push((vec![exact(t, 1, 2, 2), mk(&Pk::new(mqtt::PINGRESP), 9)], vec![t]));
        }
        aligned.push(((0..32).map(|i| exact(16, 0, 1, i)).collect(), vec![]));
        aligned.push(((0..64).map(|i| exact(16, (i % 2) as u8, 3 + i as u16, i)).collect(), vec![512]));
        aligned.push((vec![exact(500, 0, 1, 1), mk(&session::ack(mqtt::PUBREL, 9, 0), 2), exact(8, 0, 1, 2)], vec![]));
        for big in [600usize, 1024, 2000, 3000] {
            // first read 512 bytes, then the framer asks for `packet.end` more: deliver exactly that, ending on a boundary
            let mut v = vec![exact(big, 1, 7, 5)];
            let mut rest = 512usize;
            let mut i = 0;
            while rest > 0 {
                let n = if rest >= 48 { 16 } else { rest };
                v.push(exact(n.max(12), 0, 1, 10 + i));
                rest -= n.max(12).min(rest);
                i += 1;
            }
            aligned.push((v, vec![512, 512 + big]));
        }
        // a full 512-byte read that ends inside the remaining-length field of the next packet, after 1, 2 or 3 of its bytes
        // (lengths of two, three and four bytes: packets of 200, 20 000 and 2 100 000 bytes)
        for (big, lenbytes) in [(200usize, 2usize), (20_000, 3), (2_100_000, 4)] {
            for j in 1..lenbytes {
                aligned.push((vec![exact(512 - 1 - j, 0, 1, 1), exact(big, 1, 9, 2), mk(&Pk::new(mqtt::PINGRESP), 9)], vec![512]));
            }
        }
        for (apks, cuts) in aligned {
            let np = apks.iter().filter(|p| p.abs["t"] == "PINGRESP").count();
            for upfront in [true, false] {
                let run = match sink.mine() {
                    Some(x) => x,
                    None => continue,
                };
                chunk_run(&mut sink, run, "chunk-long", &apks, &cuts, upfront, np, 0, seed);
            }
        }
    }
    sink.finish();
    0
}

// ---------------------------------------------------------------------------------------------
// C04: arbitrary bytes, mutated packets, packets at the wrong moment, transport faults

fn sample_packets() -> Vec<(String, Vec<u8>)> {
    let mut v: Vec<(String, Pk, u8)> = vec![];
    let up = |k: &str, val: &str| Prop { id: 0x26, v: PV::Pair(k.as_bytes().to_vec(), val.as_bytes().to_vec()) };
    let mut c = Pk::new(mqtt::CONNACK);
    c.rc = Some(0);
    c.props = vec![
        Prop { id: 0x11, v: PV::U32(30) },
        Prop { id: 0x21, v: PV::U16(20) },
        Prop { id: 0x24, v: PV::Byte(1) },
        Prop { id: 0x25, v: PV::Byte(1) },
        Prop { id: 0x27, v: PV::U32(4096) },
        Prop { id: 0x12, v: PV::Str(b"assigned".to_vec()) },
        Prop { id: 0x22, v: PV::U16(5) },
        Prop { id: 0x1f, v: PV::Str(b"ok".to_vec()) },
        up("a", "b"),
        Prop { id: 0x28, v: PV::Byte(1) },
        Prop { id: 0x29, v: PV::Byte(1) },
        Prop { id: 0x2a, v: PV::Byte(1) },
        Prop { id: 0x13, v: PV::U16(60) },
        Prop { id: 0x1a, v: PV::Str(b"ri".to_vec()) },
        Prop { id: 0x1c, v: PV::Str(b"sr".to_vec()) },
        Prop { id: 0x15, v: PV::Str(b"m".to_vec()) },
        Prop { id: 0x16, v: PV::Bin(b"d".to_vec()) },
    ];
    v.push(("connack".into(), c.clone(), 9));
    let mut c2 = Pk::new(mqtt::CONNACK);
    c2.rc = Some(0x87);
    v.push(("connack-fail".into(), c2, 9));
    let mut au = Pk::new(mqtt::AUTH);
    au.rc = Some(0x18);
    au.props = vec![Prop { id: 0x15, v: PV::Str(b"m".to_vec()) }, Prop { id: 0x16, v: PV::Bin(b"dd".to_vec()) }, Prop { id: 0x1f, v: PV::Str(b"r".to_vec()) }, up("k", "v")];
    v.push(("auth".into(), au.clone(), 9));
    // AUTH with the other reason codes (0x19 Re-authenticate is for clients to send: a server sending it is "unexpected", not fatal)
    let mut au2 = au.clone();
    au2.rc = Some(0x19);
    v.push(("auth-reauth".into(), au2, 9));
    let mut au3 = au;
    au3.rc = Some(0x00);
    v.push(("auth-success".into(), au3, 9));
    let mut p = in_publish(1, 7, 5, 1);
    p.props.push(Prop { id: 0x01, v: PV::Byte(1) });
    p.props.push(Prop { id: 0x02, v: PV::U32(9) });
    p.props.push(Prop { id: 0x23, v: PV::U16(3) });
    p.props.push(Prop { id: 0x08, v: PV::Str(b"rt".to_vec()) });
    p.props.push(Prop { id: 0x09, v: PV::Bin(b"cd".to_vec()) });
    p.props.push(Prop { id: 0x03, v: PV::Str(b"ct".to_vec()) });
    p.props.push(up("k", "v"));
    v.push(("publish1".into(), p, 9));
    v.push(("publish0".into(), in_publish(0, 0, 3, 2), 9));
    v.push(("publish2".into(), in_publish(2, 8, 3, 3), 9));
    for (n, t) in [("puback", mqtt::PUBACK), ("pubrec", mqtt::PUBREC), ("pubrel", mqtt::PUBREL), ("pubcomp", mqtt::PUBCOMP)] {
        for id in [1u16, 2, 9] {
            let mut a = session::ack(t, id, 0);
            v.push((format!("{}-{}-short", n, id), a.clone(), 2));
            a.rc = Some(if t == mqtt::PUBREL || t == mqtt::PUBCOMP { 0x92 } else { 0x80 });
            v.push((format!("{}-{}-rc", n, id), a.clone(), 3));
            a.props = vec![Prop { id: 0x1f, v: PV::Str(b"why".to_vec()) }, up("k", "v")];
            v.push((format!("{}-{}-full", n, id), a, 9));
        }
    }
    for (n, t) in [("suback", mqtt::SUBACK), ("unsuback", mqtt::UNSUBACK)] {
        for id in [3u16, 4, 9] {
            let mut a = Pk::new(t);
            a.id = Some(id);
            a.rcs = vec![0, 0x80];
            a.props = vec![Prop { id: 0x1f, v: PV::Str(b"why".to_vec()) }, up("k", "v")];
            v.push((format!("{}-{}", n, id), a, 9));
        }
    }
    v.push(("pingresp".into(), Pk::new(mqtt::PINGRESP), 9));
    let mut d = Pk::new(mqtt::DISCONNECT);
    d.rc = Some(0x8b);
    d.props = vec![Prop { id: 0x11, v: PV::U32(5) }, Prop { id: 0x1f, v: PV::Str(b"bye".to_vec()) }, Prop { id: 0x1c, v: PV::Str(b"x".to_vec()) }, up("k", "v")];
    v.push(("disconnect".into(), d.clone(), 9));
    v.push(("disconnect-empty".into(), d.clone(), 0));
    v.push(("disconnect-rc".into(), d, 1));
    // packets only a client sends
    let mut cn = Pk::new(mqtt::CONNECT);
    cn.client_id = b"x".to_vec();
    cn.connect_flags = 2;
    v.push(("connect".into(), cn, 9));
    let mut sb = Pk::new(mqtt::SUBSCRIBE);
    sb.flags = 2;
    sb.id = Some(3);
    sb.filters = vec![(b"a".to_vec(), 1)];
    v.push(("subscribe".into(), sb.clone(), 9));
    sb.t = mqtt::UNSUBSCRIBE;
    v.push(("unsubscribe".into(), sb, 9));
    v.push(("pingreq".into(), Pk::new(mqtt::PINGREQ), 9));
    v.into_iter().map(|(n, p, f)| (n, mqtt::encode(&p, f))).collect()
}

fn mutations(b: &[u8], rng: &mut StdRng, thorough: bool) -> Vec<(String, Vec<u8>)> {
    let mut out: Vec<(String, Vec<u8>)> = vec![];
    // truncation at every offset (the rest never comes: EOF follows)
    for i in 1..b.len() {
        out.push((format!("trunc{}", i), b[..i].to_vec()));
    }
    // truncation with the remaining length corrected (the decoder sees a complete packet that ends early), and
    // additionally with a plausible property-length byte corrected so that the property section ends at the cut
    if b.len() >= 3 && b[1] < 0x80 {
        for i in 2..b.len() {
            let mut m = b[..i].to_vec();
            m[1] = (i - 2) as u8;
            out.push((format!("truncfix{}", i), m.clone()));
            for pos in 2..i.min(14) {
                if pos + 1 < i && (b[pos] as usize) + pos + 1 <= b.len() && b[pos] > 0 {
                    let mut m2 = m.clone();
                    m2[pos] = (i - pos - 1) as u8;
                    out.push((format!("truncfix{}@pl{}", i, pos), m2));
                }
            }
        }
    }
    // remaining length perturbations (single-byte remaining length assumed where it applies)
    if b.len() >= 2 && b[1] < 0x7e {
        for (n, d) in [("rl+1", 1i32), ("rl+2", 2), ("rl-1", -1), ("rl-2", -2)] {
            let nv = b[1] as i32 + d;
            if (0..128).contains(&nv) {
                let mut m = b.to_vec();
                m[1] = nv as u8;
                out.push((n.into(), m));
            }
        }
        let mut m = b.to_vec();
        m[1] = 0;
        out.push(("rl=0".into(), m));
        let mut m = vec![b[0], 0xff, 0xff, 0xff, 0x7f];
        m.extend_from_slice(&b[2..]);
        out.push(("rl=max".into(), m));
        let mut m = vec![b[0], 0x80 | b[1], 0x80, 0x80, 0x80, 0x00];
        m.extend_from_slice(&b[2..]);
        out.push(("rl-5-byte-vbi".into(), m));
        let mut m = vec![b[0], 0xff, 0xff, 0xff, 0xff, 0x7f];
        m.extend_from_slice(&b[2..]);
        out.push(("rl-5-byte-vbi-max".into(), m));
    }
    // every single bit flip in the first 8 bytes
    for i in 0..b.len().min(8) {
        for bit in 0..8 {
            let mut m = b.to_vec();
            m[i] ^= 1 << bit;
            out.push((format!("flip{}.{}", i, bit), m));
        }
    }
    // bytes set to extremes anywhere (length fields, identifiers, property ids)
    let positions: Vec<usize> = if thorough { (0..b.len()).collect() } else { (0..b.len()).filter(|_| rng.gen_range(0..3) == 0).collect() };
    for i in positions {
        for val in [0x00u8, 0x7f, 0x80, 0xff] {
            if b[i] != val {
                let mut m = b.to_vec();
                m[i] = val;
                out.push((format!("set{}={:02x}", i, val), m));
            }
        }
    }
    // splice a property (legal or not for the type), duplicate once-only property, over-long vbi, bad utf-8: appended
    // to the end of the packet with the remaining length and (if the last thing is the property list) nothing else fixed up
    for (n, extra) in [
        ("splice-topic-alias", vec![0x23u8, 0x00, 0x01]),
        ("splice-sei", vec![0x11, 0, 0, 0, 1]),
        ("splice-subid0", vec![0x0b, 0x00]),
        ("splice-subid-5byte", vec![0x0b, 0x80, 0x80, 0x80, 0x80, 0x01]),
        ("splice-unknown", vec![0x7e, 0x01]),
        ("splice-bad-utf8", vec![0x1f, 0x00, 0x02, 0xc3, 0x28]),
        ("splice-short-u16", vec![0x21, 0x01]),
        ("splice-short-u32", vec![0x27, 0x01]),
        ("splice-str-overrun", vec![0x1f, 0xff, 0xff, b'a']),
    ] {
        if b.len() >= 2 && b[1] < 0x70 {
            let mut m = b.to_vec();
            m.extend_from_slice(&extra);
            m[1] += extra.len() as u8;
            out.push((n.into(), m.clone()));
            // also with the property length (first byte where it plausibly sits) bumped
            for pos in 2..b.len().min(12) {
                if (b[pos] as usize) + pos + 1 == b.len() {
                    let mut m2 = m.clone();
                    m2[pos] = m2[pos].wrapping_add(extra.len() as u8);
                    out.push((format!("{}@pl{}", n, pos), m2));
                }
            }
        }
    }
    out
}

struct FuzzOut {
    o1: String,
    k1: String,
    unread: usize,
    o2: String,
    oppanic: usize,
    msg: String,
}

fn fuzz_case(phase: &str, bytes: &[u8], fault: &str) -> FuzzOut {
    let mut rng = StdRng::seed_from_u64(1);
    // phases ending in "R0": the CONNACK announced no Receive Maximum (quota at its default 65535, the top of its type)
    let (phase, r) = match phase.strip_suffix("R0") {
        Some(ph) => (ph, None),
        None => (phase, Some(10)),
    };
    let p = Params { fam: "fuzz".into(), r, ..Default::default() };
    let mut s;
    match phase {
        "connect" | "authorize" => {
            s = Sim::new();
            s.quiet = true;
            if phase == "connect" {
                s.command(Cmd::Connect(json!({"client_id": "pvh"})));
                s.poll_ctx();
            } else {
                s.command(Cmd::Connect(json!({"client_id": "pvh", "auth_method": "m", "auth_data": "d"})));
                s.poll_ctx();
                let mut ch = Pk::new(mqtt::AUTH);
                ch.rc = Some(0x18);
                ch.props.push(Prop { id: 0x15, v: PV::Str(b"m".to_vec()) });
                ch.props.push(Prop { id: 0x16, v: PV::Bin(b"c".to_vec()) });
                s.inject_packet(&ch, 9);
                s.poll_ctx();
                s.ctx_results.clear();
                s.ctx_returned = false;
                s.command(Cmd::Authorize(json!({"reason": 0x18, "method": "m", "data": "resp"})));
                s.poll_ctx();
            }
        }
        _ => {
            s = start(&p);
            s.quiet = true;
            if phase == "ops" || phase == "midq2" {
                s.call(1, 0, &pub_spec(1, 1, 1));
                s.call(2, 0, &pub_spec(2, 2, 1));
                s.call(3, 0, &json!({"kind": "sub", "filters": [{"f": "f/3", "qos": 1}]}));
                s.call(4, 0, &json!({"kind": "unsub", "filters": [{"f": "f/4"}]}));
                s.call(5, 0, &json!({"kind": "ping"}));
                for k in 1..=5 {
                    s.poll_op(k);
                    s.poll_ctx();
                }
                if phase == "midq2" {
                    s.inject_packet(&session::ack(mqtt::PUBREC, 2, 0), 9);
                    session::settle(&mut s, &mut rng, false);
                    let mut sa = Pk::new(mqtt::SUBACK);
                    sa.id = Some(3);
                    sa.rcs = vec![1];
                    s.inject_packet(&sa, 9);
                    session::settle(&mut s, &mut rng, false);
                }
            }
        }
    }
    let panics0 = s.panics.len();
    if fault == "wrerr" {
        s.wr_mode(crate::io::WrMode::Err);
    }
    s.inject_bytes(bytes, &[], vec![]);
    session::settle(&mut s, &mut rng, true);
    let classify = |s: &Sim| -> (String, String) {
        if s.ctx_panicked {
            ("panic".into(), String::new())
        } else if s.ctx_returned {
            ("ret".into(), s.ctx_results.last().map(|r| r["kind"].as_str().unwrap_or("").to_string()).unwrap_or_default())
        } else {
            ("pending".into(), String::new())
        }
    };
    let (mut o1, k1) = classify(&s);
    let unread = if s.ctx_alive() { s.pipe.unread() } else { 0 };
    if fault == "rderr" {
        s.rderr();
    } else {
        s.eof();
    }
    session::settle(&mut s, &mut rng, true);
    let (mut o2, _) = classify(&s);
    let msg = s.panics.get(panics0).cloned().unwrap_or_default();
    if msg.contains("Subscription identifier support is required") {
        o1 = "exempt".into();
        o2 = "exempt".into();
    }
    let oppanic = s.panics[panics0..].iter().filter(|m| !m.starts_with("ctx")).count();
    FuzzOut { o1, k1, unread, o2, oppanic, msg }
}

pub fn fuzz(a: &HashMap<String, String>) -> i32 {
    let thorough = tier_of(a);
    let mut sink = Sink::new(a);
    let seed = seed_of(a);
    let mut rng = StdRng::seed_from_u64(seed ^ 0xf00d);
    let phases = ["connect", "authorize", "idle", "ops", "midq2", "idleR0", "opsR0"];
    let mode = if cfg!(debug_assertions) { "dev" } else { "release" };
    let mut emit = |sink: &mut Sink, phase: &str, name: &str, bytes: &[u8], fault: &str| {
        let run = match sink.mine() {
            Some(x) => x,
            None => return,
        };
        let o = fuzz_case(phase, bytes, fault);
        let hexs = crate::sim::hex(&bytes[..bytes.len().min(48)]);
        let lines = vec![
            json!({"e": "reset", "run": run, "fam": "fuzz", "R": 10, "M": 0, "sei": 0, "seik": "zero", "disc": "wake", "mode": mode, "ok": 1, "recon": 0}).to_string(),
            json!({"e": "fuzz", "phase": phase, "case": name, "n": bytes.len(), "fault": fault, "o1": o.o1, "k1": o.k1, "unread": o.unread,
                   "o2": o.o2, "oppanic": o.oppanic, "msg": o.msg, "hex": hexs}).to_string(),
        ];
        sink.lines(run, &lines, json!([{"phase": phase, "case": name, "fault": fault, "hex": crate::sim::hex(bytes)}]));
    };
    // (a) all short byte strings over a boundary alphabet
    let alpha = [0x00u8, 0x01, 0x02, 0x10, 0x20, 0x30, 0x32, 0x40, 0x7f, 0x80, 0xe0, 0xf0, 0xff];
    let maxlen = if thorough { 4 } else { 3 };
    let mut strings: Vec<Vec<u8>> = vec![];
    let mut frontier: Vec<Vec<u8>> = vec![vec![]];
    for _ in 0..maxlen {
        let mut nf = vec![];
        for s in &frontier {
            for x in alpha {
                let mut t = s.clone();
                t.push(x);
                nf.push(t);
            }
        }
        strings.extend(nf.iter().cloned());
        frontier = nf;
    }
    for phase in phases {
        for s in &strings {
            emit(&mut sink, phase, "bytes", s, "eof");
        }
    }
    // (b) every packet type at every phase, and its mutations
    let samples = sample_packets();
    for phase in phases {
        for (name, b) in &samples {
            emit(&mut sink, phase, name, b, "eof");
            emit(&mut sink, phase, name, b, "rderr");
            emit(&mut sink, phase, name, b, "wrerr");
            // two packets back to back, and the packet preceded by a harmless one
            let mut two = b.clone();
            two.extend_from_slice(b);
            emit(&mut sink, phase, &format!("{}x2", name), &two, "eof");
            for (mn, m) in mutations(b, &mut rng, thorough) {
                if !thorough && phase != "idle" && phase != "connect" && rng.gen_range(0..3) != 0 {
                    continue;
                }
                emit(&mut sink, phase, &format!("{}/{}", name, mn), &m, "eof");
            }
        }
    }
    // (c) sequences of packets: every ordered pair of distinct sample packets back to back in every phase (an unexpected
    // packet must leave the client able to deal with the next one, whatever it is); thorough: also triples over one
    // representative per packet type
    for phase in phases {
        for (na, a) in &samples {
            for (nb, b) in &samples {
                if na == nb {
                    continue;
                }
                let mut two = a.clone();
                two.extend_from_slice(b);
                emit(&mut sink, phase, &format!("{}+{}", na, nb), &two, "eof");
            }
        }
    }
    if thorough {
        let reps: Vec<&(String, Vec<u8>)> = samples
            .iter()
            .filter(|(n, _)| {
                ["connack", "auth", "publish1", "publish2", "puback-1-short", "pubrec-2-rc", "pubrel-9-full", "pubcomp-2-short", "suback-3", "unsuback-4",
                 "pingresp", "disconnect-rc", "subscribe"].contains(&n.as_str())
            })
            .collect();
        for phase in phases {
            for (na, a) in &reps {
                for (nb, b) in &reps {
                    for (nc, c) in &reps {
                        let mut three = (*a).clone();
                        three.extend_from_slice(b);
                        three.extend_from_slice(c);
                        emit(&mut sink, phase, &format!("{}+{}+{}", na, nb, nc), &three, "eof");
                    }
                }
            }
        }
    }
    sink.finish();
    0
}

// ---------------------------------------------------------------------------------------------
// C16: the same script under different polling disciplines

fn outcome(s: &Sim) -> Value {
    let mut pubrels: Vec<u16> = s.wire.packets.iter().filter(|p| p.t == mqtt::PUBREL).map(|p| p.id.unwrap_or(0)).collect();
    pubrels.sort();
    json!({
        "ops": s.op_results.iter().map(|(k, v)| json!([k, v["r"], v["kind"], v["rc"], v["x"]])).collect::<Vec<_>>(),
        "items": s.items.iter().map(|(k, v)| json!([k, v.iter().map(|i| i["x"].clone()).collect::<Vec<_>>()])).collect::<Vec<_>>(),
        "ctx": s.ctx_results.iter().map(|v| json!([v["r"], v["kind"], v["rc"]])).collect::<Vec<_>>(),
        // the order in which the actor takes packets and messages that are ready at the same time is pseudo-random
        // (futures::select!), so the wire is compared per source: requests in submission order, acknowledgements in arrival order
        // A PUBREL is submitted when its caller is polled after the PUBREC was handled, and whether a PUBREC that is ready
        // together with a queued request is handled before or after it (the writer may block in between) is again the
        // pseudo-random choice: its place among the first-phase requests is not an outcome, the set of PUBRELs written is.
        "wire": s.wire.packets.iter().filter(|p| !matches!(p.t, mqtt::PUBACK | mqtt::PUBREC | mqtt::PUBCOMP | mqtt::PUBREL)).map(|p| p.abs()).collect::<Vec<_>>(),
        "pubrels": pubrels,
        "acks": s.wire.packets.iter().filter(|p| matches!(p.t, mqtt::PUBACK | mqtt::PUBREC | mqtt::PUBCOMP)).map(|p| p.abs()).collect::<Vec<_>>(),
    })
}

fn run_with_spurious(steps: &[Value], seed: u64, variant: &str, fam: &str, run: usize) -> (Vec<String>, Value) {
    let mut rng = StdRng::seed_from_u64(seed);
    let mut spur = StdRng::seed_from_u64(seed ^ 0x5eed);
    let mut p = Params::from_json(&steps[0]);
    p.fam = fam.into();
    p.run = run;
    p.disc = variant.into();
    let mut s = start(&p);
    s.sched_seed = seed;
    for st in &steps[1..] {
        exec_step(&mut s, &mut rng, st);
        // extra polls of tasks whose waker has NOT fired
        let live = s.live();
        for t in live {
            if !s.is_woken(&t) {
                let go = match variant {
                    "sweep" => true,
                    "spur" => spur.gen_range(0..4) == 0,
                    _ => false,
                };
                if go {
                    s.poll_task(&t);
                }
            }
        }
    }
    let o = outcome(&s);
    (s.trace.clone(), o)
}

pub fn disccmp(a: &HashMap<String, String>) -> i32 {
    let thorough = tier_of(a);
    let mut sink = Sink::new(a);
    let seed = seed_of(a);
    let n = if thorough { 1500 } else { 150 };
    for i in 0..n {
        let base = match sink.mine() {
            Some(x) => x,
            None => continue,
        };
        let prof = ["wake", "mixed", "ops", "inbound", "cancel"][i % 5];
        let mut cfg = session::profile(prof);
        cfg.w_spur = 0;
        cfg.steps = 50;
        cfg.endings = vec!["none"]; // simultaneous terminating causes may legally be reported in either order
        cfg.unsolicited_pct = 0; // an acknowledgement nobody waits for yet races with the request it would match
        // With a writer that may block, one poll of the actor handles only part of what is ready, and which part (the packet
        // or the queued request first) is the library's pseudo-random select: the script - a cancellation, or a broker reply
        // placed where the recorded run had already written the request it answers - then meets a different situation in two
        // runs of the SAME discipline (e.g. a PUBCOMP arriving before the PUBREL it answers was written). The scripts
        // compared here therefore use writers that take every write at once or in pieces, never ones that return Pending;
        // pending writes are covered by clauses (1) and (2) of C16, checked on every run of every walk by the trace specification.
        cfg.block_ok = false;
        let rseed = seed.wrapping_mul(7919).wrapping_add(i as u64);
        let p = Params { run: base * 3, fam: "disccmp".into(), r: None, disc: "wake".into(), ..Default::default() };
        // Receive Maximum absent: with a small quota the outcome of a publish legitimately depends on whether a
        // slot-freeing acknowledgement that is ready at the same time is taken before or after it
        let (script, _) = session::walk(&p, &cfg, rseed);
        // the recorded script uses sweeping settles; make the reference run wake-only
        let script: Vec<Value> = script
            .into_iter()
            .map(|mut st| {
                if st["a"] == "settle" {
                    st["sweep"] = json!(false);
                }
                st
            })
            .collect();
        let (t0, o0) = run_with_spurious(&script, rseed, "wake", "disccmp", base * 3);
        let mut all = t0;
        for (j, variant) in ["sweep", "spur"].iter().enumerate() {
            let (mut t, o) = run_with_spurious(&script, rseed, variant, "disccmp", base * 3 + j + 1);
            let same = o == o0;
            let detail = if same { String::new() } else { first_diff(&o0, &o) };
            t.push(json!({"e": "disccmp", "variant": variant, "same": same as u8, "detail": detail}).to_string());
            all.extend(t);
        }
        sink.lines(base, &all, json!(script));
    }
    sink.finish();
    0
}

fn first_diff(a: &Value, b: &Value) -> String {
    for key in ["ops", "items", "ctx", "wire", "pubrels", "acks"] {
        if a[key] != b[key] {
            let (x, y) = (a[key].as_array().cloned().unwrap_or_default(), b[key].as_array().cloned().unwrap_or_default());
            for i in 0..x.len().max(y.len()) {
                if x.get(i) != y.get(i) {
                    return format!("{}[{}]: {} vs {}", key, i, x.get(i).map(|v| v.to_string()).unwrap_or("-".into()), y.get(i).map(|v| v.to_string()).unwrap_or("-".into()));
                }
            }
        }
    }
    "?".into()
}

// ---------------------------------------------------------------------------------------------
// C13 / C14: every terminating cause in every session state (including causes that arrive in the
// same batch as other requests)

pub fn endings(a: &HashMap<String, String>) -> i32 {
    let thorough = tier_of(a);
    let mut sink = Sink::new(a);
    let seed = seed_of(a);
    let states = ["idle", "ops", "ops-drop", "midq2", "queued", "recunpolled", "recunpolled-drop", "stbuf", "q0blocked-drop"];
    let mut causes: Vec<Value> = vec![];
    for behind in 0..3usize {
        for after in 0..2usize {
            for rc in [json!(null), json!(0), json!(4), json!(0x80)] {
                causes.push(json!({"c": "userdisc", "behind": behind, "after": after, "rc": rc}));
            }
        }
    }
    for rc in session::DISCONNECT_REASONS {
        for props in [json!([]), json!([[0x1f, "going away"], [0x26, "k", "v"]]), json!([[0x1c, "other:1883"], [0x26, "a", "b"], [0x26, "a", "c"]])] {
            if !thorough && props != json!([]) && rc % 3 != 0 {
                continue;
            }
            for form in [2u8, 1, 0] {
                // shortened forms: reason only (1), empty = reason 0 (0)
                if (form == 0 && rc != 0) || (form != 2 && props != json!([])) {
                    continue;
                }
                causes.push(json!({"c": "srvdisc", "rc": rc, "props": props, "form": form}));
            }
        }
    }
    causes.push(json!({"c": "eof"}));
    causes.push(json!({"c": "rderr"}));
    causes.push(json!({"c": "ctxdrop"})); // the context is dropped while it is still serving, nothing is polled in between
    causes.push(json!({"c": "oversized-disc", "n": 40})); // a DISCONNECT refused for size is not a DISCONNECT
    causes.push(json!({"c": "oversized-disc", "n": 200}));
    causes.push(json!({"c": "wrerr", "req": "ping"}));
    causes.push(json!({"c": "wrerr", "req": "pub1"}));
    causes.push(json!({"c": "wrerr", "req": "sub"}));
    causes.push(json!({"c": "wrerr", "req": "inbound"}));
    causes.push(json!({"c": "wrerr", "req": "disc"})); // the write of the user's DISCONNECT itself fails: not a graceful end
    for queued in 0..3usize {
        causes.push(json!({"c": "handles", "queued": queued}));
    }
    for st in states {
        for cause in &causes {
            let run = match sink.mine() {
                Some(x) => x,
                None => continue,
            };
            // (a Maximum Packet Size is announced in every run: what is started after the context has gone fails with
            // ContextExited whatever its size)
            let m = if cause["c"] == "oversized-disc" { Some(34u32) } else { Some(64u32) };
            let mut steps = vec![reset("endings", Some(5), m)];
            // every other run with a session that may be resumed (what happens at the end of the connection must not depend on it)
            if run % 2 == 1 || st == "ops-drop" {
                steps[0]["sei_connect"] = json!(3600);
            }
            let mut next = 1usize;
            let mut live_ops: Vec<usize> = vec![];
            match st {
                "ops" | "ops-drop" | "midq2" => {
                    steps.push(json!({"a": "call", "op": 1, "h": 0, "spec": {"kind": "sub", "filters": [{"f": "f/1", "qos": 1}]}}));
                    steps.push(json!({"a": "call", "op": 2, "h": 0, "spec": pub_spec(2, 1, 2)}));
                    steps.push(json!({"a": "call", "op": 3, "h": 0, "spec": pub_spec(3, 2, 2)}));
                    steps.push(json!({"a": "call", "op": 4, "h": 0, "spec": {"kind": "ping"}}));
                    if st == "ops-drop" {
                        // requests that are never re-sent on a resumed session, awaiting their acknowledgements at the end
                        steps.push(json!({"a": "call", "op": 5, "h": 0, "spec": {"kind": "sub", "filters": [{"f": "f/5", "qos": 0}]}}));
                        steps.push(json!({"a": "call", "op": 6, "h": 0, "spec": {"kind": "unsub", "filters": [{"f": "f/6"}]}}));
                    }
                    steps.push(settle_wake());
                    steps.push(json!({"a": "pkt", "pk": {"t": "SUBACK", "id": {"op": 1}, "rcs": [1]}}));
                    steps.push(settle_wake());
                    steps.push(json!({"a": "pkt", "pk": {"t": "PUBLISH", "qos": 0, "id": 1, "topic": "in/1", "payload": "buffered", "sids": [{"sub": 1}]}}));
                    steps.push(poll_ctx());
                    if st == "midq2" {
                        steps.push(json!({"a": "pkt", "pk": {"t": "PUBREC", "id": {"op": 3}, "rc": 0}}));
                        steps.push(poll_ctx());
                        steps.push(poll_op(3));
                        steps.push(poll_ctx());
                    }
                    next = if st == "ops-drop" { 7 } else { 5 };
                    live_ops = if st == "ops-drop" { vec![2, 3, 4, 5, 6] } else { vec![2, 3, 4] };
                }
                "stbuf" => {
                    // a stream with two messages buffered that the consumer has not taken yet (they must still come out, then the end)
                    steps.push(json!({"a": "call", "op": 1, "h": 0, "spec": {"kind": "sub", "filters": [{"f": "f/1", "qos": 1}]}}));
                    steps.push(settle_wake());
                    steps.push(json!({"a": "pkt", "pk": {"t": "SUBACK", "id": {"op": 1}, "rcs": [1]}}));
                    steps.push(settle_wake());
                    // (two of them, or a long backlog)
                    for i in 0..(if run % 2 == 0 { 2 } else { 40 }) {
                        steps.push(json!({"a": "pkt", "pk": {"t": "PUBLISH", "qos": (i % 2) as u8, "id": 30 + i as u16, "dup": 0, "topic": format!("b/{}", i), "payload": "kept", "sids": [{"sub": 1}]}}));
                        steps.push(poll_ctx());
                    }
                    next = 2;
                }
                "recunpolled" | "recunpolled-drop" => {
                    // a QoS 2 publish whose PUBREC the actor has handled but whose future has not been polled since
                    steps.push(json!({"a": "call", "op": 1, "h": 0, "spec": pub_spec(1, 2, 2)}));
                    steps.push(json!({"a": "call", "op": 2, "h": 0, "spec": pub_spec(2, 1, 2)}));
                    steps.push(poll_op(1));
                    steps.push(poll_op(2));
                    steps.push(poll_ctx());
                    steps.push(json!({"a": "pkt", "pk": {"t": "PUBREC", "id": {"op": 1}, "rc": 0}}));
                    steps.push(json!({"a": "pkt", "pk": {"t": "PUBACK", "id": {"op": 2}, "rc": 0}}));
                    steps.push(poll_ctx());
                    next = 3;
                    live_ops = vec![1, 2];
                }
                "q0blocked-drop" => {
                    // a QoS 0 publish (and a ping) the context has taken from the queue while the transport accepts nothing:
                    // not a byte of it is written when the context goes away, and its caller has not been polled since
                    steps.push(json!({"a": "wrmode", "m": "block", "k": 0}));
                    steps.push(json!({"a": "call", "op": 1, "h": 0, "spec": pub_spec(1, 0, 2)}));
                    steps.push(json!({"a": "call", "op": 2, "h": 0, "spec": {"kind": "ping"}}));
                    steps.push(poll_op(1));
                    steps.push(poll_op(2));
                    steps.push(poll_ctx());
                    steps.push(poll_ctx());
                    next = 3;
                    live_ops = vec![1, 2];
                }
                "queued" => {
                    steps.push(json!({"a": "call", "op": 1, "h": 0, "spec": pub_spec(1, 1, 2)}));
                    steps.push(json!({"a": "call", "op": 2, "h": 0, "spec": {"kind": "ping"}}));
                    steps.push(poll_op(1));
                    steps.push(poll_op(2));
                    next = 3;
                    live_ops = vec![1, 2];
                }
                _ => {}
            }
            // how the transport reacts to being closed is none of the library's outcomes
            if run % 3 != 0 {
                steps.push(json!({"a": "closemode", "m": run % 3}));
            }
            match cause["c"].as_str().unwrap_or("") {
                "userdisc" => {
                    let behind = cause["behind"].as_u64().unwrap_or(0) as usize;
                    let after = cause["after"].as_u64().unwrap_or(0) as usize;
                    let mut firsts = vec![];
                    for _ in 0..behind {
                        steps.push(json!({"a": "call", "op": next, "h": 0, "spec": pub_spec(next, (next % 2) as u8, 1)}));
                        firsts.push(next);
                        next += 1;
                    }
                    let mut d = json!({"kind": "disc"});
                    if !cause["rc"].is_null() {
                        d["reason"] = cause["rc"].clone();
                    }
                    steps.push(json!({"a": "call", "op": next, "h": 0, "spec": d}));
                    firsts.push(next);
                    next += 1;
                    for _ in 0..after {
                        steps.push(json!({"a": "call", "op": next, "h": 0, "spec": pub_spec(next, 1, 1)}));
                        firsts.push(next);
                        next += 1;
                    }
                    // all first polls (enqueue in this order), then one poll of the context: one batch
                    for k in firsts {
                        steps.push(poll_op(k));
                    }
                    steps.push(poll_ctx());
                }
                "srvdisc" => {
                    steps.push(json!({"a": "pkt", "pk": {"t": "DISCONNECT", "rc": cause["rc"], "props": cause["props"]}, "form": cause["form"]}));
                }
                "ctxdrop" => {
                    steps.push(json!({"a": "drop", "t": "ctx", "k": 0}));
                }
                "oversized-disc" => {
                    let n = cause["n"].as_u64().unwrap_or(40) as usize;
                    steps.push(json!({"a": "call", "op": next, "h": 0, "spec": {"kind": "disc", "rs": {"tag": "why", "n": n}}}));
                    steps.push(settle_wake());
                    steps.push(json!({"a": "call", "op": next + 1, "h": 0, "spec": {"kind": "ping"}}));
                    steps.push(settle_wake());
                    steps.push(json!({"a": "pkt", "pk": {"t": "PINGRESP"}}));
                    steps.push(settle_wake());
                    steps.push(json!({"a": "call", "op": next + 2, "h": 0, "spec": {"kind": "disc"}}));
                    next += 3;
                }
                "eof" => steps.push(json!({"a": "eof"})),
                "rderr" => steps.push(json!({"a": "rderr"})),
                "wrerr" => {
                    steps.push(json!({"a": "wrmode", "m": "err", "k": 0}));
                    match cause["req"].as_str().unwrap_or("") {
                        "ping" => steps.push(json!({"a": "call", "op": next, "h": 0, "spec": {"kind": "ping"}})),
                        "pub1" => steps.push(json!({"a": "call", "op": next, "h": 0, "spec": pub_spec(next, 1, 1)})),
                        "sub" => steps.push(json!({"a": "call", "op": next, "h": 0, "spec": {"kind": "sub", "filters": [{"f": format!("f/{}", next), "qos": 0}]}})),
                        "disc" => steps.push(json!({"a": "call", "op": next, "h": 0, "spec": {"kind": "disc"}})),
                        _ => steps.push(json!({"a": "pkt", "pk": {"t": "PUBLISH", "qos": 1, "id": 44, "topic": "in/w", "payload": "x", "sids": []}})),
                    }
                    next += 1;
                }
                "handles" => {
                    let queued = cause["queued"].as_u64().unwrap_or(0) as usize;
                    for _ in 0..queued {
                        steps.push(json!({"a": "call", "op": next, "h": 0, "spec": pub_spec(next, (next % 3) as u8, 1)}));
                        steps.push(poll_op(next));
                        live_ops.push(next);
                        next += 1;
                    }
                    for k in &live_ops {
                        steps.push(json!({"a": "drop", "t": "op", "k": k}));
                    }
                    steps.push(json!({"a": "drop", "t": "h", "k": 0}));
                }
                _ => {}
            }
            if st == "recunpolled-drop" || st == "stbuf" || st == "ops-drop" || st == "q0blocked-drop" {
                // the context ends and is dropped before the caller between its QoS 2 phases is polled again
                steps.push(poll_ctx());
                steps.push(poll_ctx());
                steps.push(json!({"a": "drop", "t": "ctx", "k": 0}));
            }
            steps.push(settle());
            steps.push(json!({"a": "drop", "t": "ctx", "k": 0}));
            steps.push(json!({"a": "call", "op": next + 1, "h": 0, "spec": pub_spec(next + 1, 1, 1)}));
            steps.push(json!({"a": "call", "op": next + 2, "h": 0, "spec": pub_spec(next + 2, (run % 3) as u8, 100)}));
            steps.push(json!({"a": "call", "op": next + 3, "h": 0, "spec": {"kind": "sub", "filters": [{"f": "late/".repeat(20), "qos": 1}]}}));
            steps.push(settle());
            sink.run_script(run, steps, seed);
        }
    }
    sink.finish();
    0
}
