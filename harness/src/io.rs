//! Mock transport: scripted read chunks, scripted write acceptance, waker slots, event log.

use futures::io::{AsyncRead, AsyncWrite};
use std::collections::VecDeque;
use std::io;
use std::pin::Pin;
use std::sync::{Arc, Mutex};
use std::task::{Context, Poll, Waker};

use crate::mqtt;

#[derive(Clone, Copy, Debug, PartialEq, Eq)]
pub enum End {
    Open,
    Eof,
    Err,
}

#[derive(Clone, Copy, Debug, PartialEq, Eq)]
pub enum WrMode {
    Accept,
    /// accepts this many more bytes (possibly ending inside a packet), then blocks; reported to the trace as `accept`, and
    /// as `block` at the moment the budget runs out
    Budget(usize),
    Max(usize),
    Block,
    Err,
    Zero,
}

#[derive(Clone, Debug)]
pub enum IoEv {
    AutoBlock,
    Rd(usize),
    RdPending,
    RdEof,
    RdErr,
    RdEmptyBuf,
    WrPacket(Vec<u8>),
    WrGarbage(Vec<u8>, String),
    WrPart(usize),
    WrPending,
    WrErr,
}

pub struct PipeInner {
    pub in_chunks: VecDeque<Vec<u8>>,
    pub in_end: End,
    pub rd_waker: Option<Waker>,
    pub out_unframed: Vec<u8>,
    pub out_total: usize,
    pub wr_mode: WrMode,
    pub close_mode: u8,
    pub wr_waker: Option<Waker>,
    pub log: Vec<IoEv>,
    pub log_io: bool,
    pub rd_calls: usize,
    pub broken_framing: bool,
}

#[derive(Clone)]
pub struct Pipe(pub Arc<Mutex<PipeInner>>);

impl Pipe {
    pub fn new() -> Pipe {
        Pipe(Arc::new(Mutex::new(PipeInner {
            in_chunks: VecDeque::new(),
            in_end: End::Open,
            rd_waker: None,
            out_unframed: vec![],
            out_total: 0,
            wr_mode: WrMode::Accept,
            close_mode: 0,
            wr_waker: None,
            log: vec![],
            log_io: false,
            rd_calls: 0,
            broken_framing: false,
        })))
    }
    pub fn inject(&self, chunk: Vec<u8>) {
        let w = {
            let mut g = self.0.lock().unwrap();
            if chunk.is_empty() {
                return;
            }
            g.in_chunks.push_back(chunk);
            g.rd_waker.take()
        };
        if let Some(w) = w {
            w.wake();
        }
    }
    pub fn end(&self, e: End) {
        let w = {
            let mut g = self.0.lock().unwrap();
            g.in_end = e;
            g.rd_waker.take()
        };
        if let Some(w) = w {
            w.wake();
        }
    }
    pub fn set_wr_mode(&self, m: WrMode) {
        let w = {
            let mut g = self.0.lock().unwrap();
            g.wr_mode = m;
            if m != WrMode::Block {
                g.wr_waker.take()
            } else {
                None
            }
        };
        if let Some(w) = w {
            w.wake();
        }
    }
    pub fn unread(&self) -> usize {
        self.0.lock().unwrap().in_chunks.iter().map(|c| c.len()).sum()
    }
    pub fn end_state(&self) -> End {
        self.0.lock().unwrap().in_end
    }
    pub fn has_rd_waker(&self) -> bool {
        self.0.lock().unwrap().rd_waker.is_some()
    }
    pub fn has_wr_waker(&self) -> bool {
        self.0.lock().unwrap().wr_waker.is_some()
    }
    pub fn drain_log(&self) -> Vec<IoEv> {
        std::mem::take(&mut self.0.lock().unwrap().log)
    }
    pub fn pending_out(&self) -> usize {
        self.0.lock().unwrap().out_unframed.len()
    }
}

pub struct Reader(pub Pipe);
pub struct Writer(pub Pipe);

impl AsyncRead for Reader {
    fn poll_read(self: Pin<&mut Self>, cx: &mut Context<'_>, buf: &mut [u8]) -> Poll<io::Result<usize>> {
        let mut g = (self.0).0.lock().unwrap();
        g.rd_calls += 1;
        if buf.is_empty() {
            g.log.push(IoEv::RdEmptyBuf);
            return Poll::Ready(Ok(0));
        }
        if let Some(mut c) = g.in_chunks.pop_front() {
            let n = c.len().min(buf.len());
            buf[..n].copy_from_slice(&c[..n]);
            if n < c.len() {
                c.drain(..n);
                g.in_chunks.push_front(c);
            }
            g.log.push(IoEv::Rd(n));
            return Poll::Ready(Ok(n));
        }
        match g.in_end {
            End::Eof => {
                g.log.push(IoEv::RdEof);
                Poll::Ready(Ok(0))
            }
            End::Err => {
                g.log.push(IoEv::RdErr);
                Poll::Ready(Err(io::Error::new(io::ErrorKind::ConnectionReset, "injected read error")))
            }
            End::Open => {
                g.rd_waker = Some(cx.waker().clone());
                if g.log_io {
                    g.log.push(IoEv::RdPending);
                }
                Poll::Pending
            }
        }
    }
}

impl PipeInner {
    fn accept(&mut self, data: &[u8]) {
        self.out_total += data.len();
        self.out_unframed.extend_from_slice(data);
        while !self.broken_framing {
            match mqtt::frame_len(&self.out_unframed) {
                Ok(Some(n)) => {
                    let p: Vec<u8> = self.out_unframed.drain(..n).collect();
                    self.log.push(IoEv::WrPacket(p));
                }
                Ok(None) => break,
                Err(e) => {
                    self.broken_framing = true;
                    let g = std::mem::take(&mut self.out_unframed);
                    self.log.push(IoEv::WrGarbage(g, e));
                }
            }
        }
    }
}

impl AsyncWrite for Writer {
    fn poll_write(self: Pin<&mut Self>, cx: &mut Context<'_>, buf: &[u8]) -> Poll<io::Result<usize>> {
        let mut g = (self.0).0.lock().unwrap();
        match g.wr_mode {
            WrMode::Accept => {
                g.accept(buf);
                Poll::Ready(Ok(buf.len()))
            }
            WrMode::Max(k) => {
                let n = k.max(1).min(buf.len());
                g.accept(&buf[..n]);
                if n < buf.len() && g.log_io {
                    g.log.push(IoEv::WrPart(n));
                }
                Poll::Ready(Ok(n))
            }
            WrMode::Budget(b) => {
                if b == 0 {
                    g.wr_mode = WrMode::Block;
                    g.log.push(IoEv::AutoBlock);
                    g.wr_waker = Some(cx.waker().clone());
                    g.log.push(IoEv::WrPending);
                    Poll::Pending
                } else {
                    let n = b.min(buf.len());
                    g.accept(&buf[..n]);
                    g.wr_mode = WrMode::Budget(b - n);
                    Poll::Ready(Ok(n))
                }
            }
            WrMode::Block => {
                g.wr_waker = Some(cx.waker().clone());
                g.log.push(IoEv::WrPending);
                Poll::Pending
            }
            WrMode::Err => {
                g.log.push(IoEv::WrErr);
                Poll::Ready(Err(io::Error::new(io::ErrorKind::BrokenPipe, "injected write error")))
            }
            WrMode::Zero => {
                g.log.push(IoEv::WrErr);
                Poll::Ready(Ok(0))
            }
        }
    }
    fn poll_flush(self: Pin<&mut Self>, _cx: &mut Context<'_>) -> Poll<io::Result<()>> {
        Poll::Ready(Ok(()))
    }
    fn poll_close(self: Pin<&mut Self>, _cx: &mut Context<'_>) -> Poll<io::Result<()>> {
        // what closing the write half does is the transport's business (0 = succeeds, 1 = fails, 2 = never completes); the
        // library's documented outcomes do not depend on it
        match (self.0).0.lock().unwrap().close_mode {
            1 => Poll::Ready(Err(io::Error::new(io::ErrorKind::NotConnected, "injected close error"))),
            2 => Poll::Pending,
            _ => Poll::Ready(Ok(())),
        }
    }
}
