//! C11, multi-thread family: several OS threads, each owning a clone of the handle, issue
//! identifier-consuming operations concurrently while the context runs on its own thread and a
//! broker thread acknowledges what appears on the wire.  The only ordered record used is the
//! broker's own log (what it saw written, what it injected), so no cross-thread clock is needed:
//! an identifier is in use from the moment its packet is seen on the wire until the broker has
//! injected its acknowledgement (the caller cannot have finished - and the library cannot reuse the
//! identifier legitimately - before that).

use crate::io::{IoEv, Pipe, Reader, Writer};
use crate::mqtt::{self, Pk};
use poster::{Context, ContextHandle, PublishOpts, QoS, SubscribeOpts, SubscriptionOpts, UnsubscribeOpts};
use serde_json::json;
use std::collections::HashMap;
use std::io::Write;
use std::sync::atomic::{AtomicBool, AtomicUsize, Ordering};
use std::sync::Arc;
use std::time::Duration;

fn worker(mut h: ContextHandle, tid: usize, n: usize, failed: Arc<AtomicUsize>) {
    for i in 0..n {
        let topic = format!("w/{}/{}", tid, i);
        let r = std::panic::catch_unwind(std::panic::AssertUnwindSafe(|| match i % 23 {
            7 => futures::executor::block_on(h.subscribe(SubscribeOpts::new().subscription(&topic, SubscriptionOpts::new()))).map(|_| ()),
            11 => futures::executor::block_on(h.unsubscribe(UnsubscribeOpts::new().topic_filter(&topic))).map(|_| ()),
            k if k % 5 == 0 => futures::executor::block_on(h.publish(PublishOpts::new().topic_name(&topic).qos(QoS::ExactlyOnce).payload(b"x"))),
            _ => futures::executor::block_on(h.publish(PublishOpts::new().topic_name(&topic).qos(QoS::AtLeastOnce).payload(b"x"))),
        }));
        match r {
            Ok(Ok(())) => {}
            _ => {
                failed.fetch_add(1, Ordering::SeqCst);
                if r.is_err() {
                    return; // a panic in the caller (e.g. identifier allocation): recorded, the thread stops
                }
            }
        }
    }
}

pub fn threads(a: &HashMap<String, String>) -> i32 {
    let nthreads: usize = a.get("threads").and_then(|s| s.parse().ok()).unwrap_or(4);
    let thorough = a.get("tier").map(|s| s == "thorough").unwrap_or(false);
    let per: usize = a.get("ops").and_then(|s| s.parse().ok()).unwrap_or(if thorough { 40_000 } else { 18_000 });
    let shard: usize = a.get("shard").and_then(|s| s.parse().ok()).unwrap_or(0);
    let mut out: Box<dyn Write> = match a.get("out") {
        Some(p) => Box::new(std::io::BufWriter::new(std::fs::File::create(p).expect("out"))),
        None => Box::new(std::io::BufWriter::new(std::io::stdout())),
    };
    if let Some(p) = a.get("scripts") {
        let _ = std::fs::File::create(p);
    }
    if shard != 0 {
        writeln!(out, "{}", json!({"e": "end"})).unwrap();
        return 0;
    }
    let pipe = Pipe::new();
    let (mut ctx, handle): (Context<Reader, Writer>, ContextHandle) = Context::new();
    // CONNACK is already waiting
    pipe.inject(vec![0x20, 0x03, 0x00, 0x00, 0x00]);
    let p2 = pipe.clone();
    let stop = Arc::new(AtomicBool::new(false));
    let ctx_thread = std::thread::spawn(move || {
        futures::executor::block_on(async move {
            let _ = ctx.set_up((Reader(p2.clone()), Writer(p2))).connect(poster::ConnectOpts::new()).await;
            let _ = ctx.run().await;
        })
    });
    let failed = Arc::new(AtomicUsize::new(0));
    let mut workers = vec![];
    for t in 0..nthreads {
        let h = handle.clone();
        let f = failed.clone();
        workers.push(std::thread::spawn(move || worker(h, t, per, f)));
    }
    drop(handle);
    writeln!(
        out,
        "{}",
        json!({"e": "reset", "run": 0, "fam": "threads", "R": 65535, "M": 0, "sei": 0, "seik": "zero", "disc": "wake",
               "mode": if cfg!(debug_assertions) { "dev" } else { "release" }, "ok": 1, "recon": 0})
    )
    .unwrap();
    // broker: acknowledge everything that appears on the wire, in the order seen; log wr / ack in its own order
    let mut seen_connect = false;
    let mut idle_rounds = 0;
    let mut nwr = 0usize;
    let lag = nthreads.saturating_sub(2).max(1);
    let mut backlog: std::collections::VecDeque<(Pk, u16)> = std::collections::VecDeque::new();
    loop {
        let evs = pipe.drain_log();
        let mut progressed = false;
        for ev in evs {
            if let IoEv::WrPacket(b) = ev {
                progressed = true;
                let pk = match mqtt::decode(&b) {
                    Ok(p) => p,
                    Err(e) => {
                        writeln!(out, "{}", json!({"e": "twr", "t": "MALFORMED", "id": 0, "why": e})).unwrap();
                        continue;
                    }
                };
                if pk.t == mqtt::CONNECT {
                    seen_connect = true;
                    continue;
                }
                nwr += 1;
                let id = pk.id.unwrap_or(0);
                let sid = pk.sids().first().cloned().unwrap_or(0);
                writeln!(out, "{}", json!({"e": "twr", "t": mqtt::tname(pk.t), "id": id, "qos": pk.qos(), "sid": sid})).unwrap();
                let ack: Option<Pk> = match pk.t {
                    mqtt::PUBLISH if pk.qos() == 1 => Some(crate::session::ack(mqtt::PUBACK, id, 0)),
                    mqtt::PUBLISH if pk.qos() == 2 => Some(crate::session::ack(mqtt::PUBREC, id, 0)),
                    mqtt::PUBREL => Some(crate::session::ack(mqtt::PUBCOMP, id, 0)),
                    mqtt::SUBSCRIBE => {
                        let mut s = Pk::new(mqtt::SUBACK);
                        s.id = Some(id);
                        s.rcs = vec![0];
                        Some(s)
                    }
                    mqtt::UNSUBSCRIBE => {
                        let mut s = Pk::new(mqtt::UNSUBACK);
                        s.id = Some(id);
                        s.rcs = vec![0];
                        Some(s)
                    }
                    _ => None,
                };
                if let Some(ack) = ack {
                    // acknowledgements lag behind: up to `lag` exchanges stay open so that consecutive allocations are
                    // outstanding together (lag < number of workers, or everybody would wait)
                    backlog.push_back((ack, id));
                    while backlog.len() > lag {
                        let (ack, id) = backlog.pop_front().unwrap();
                        // the identifier stays in use until the final acknowledgement of the exchange is injected
                        writeln!(out, "{}", json!({"e": "tack", "t": mqtt::tname(ack.t), "id": id})).unwrap();
                        pipe.inject(mqtt::encode(&ack, 9));
                    }
                }
            }
        }
        let all_done = workers.iter().all(|w| w.is_finished());
        if !progressed {
            // nothing new on the wire: release one held acknowledgement so that the workers can go on
            if let Some((ack, id)) = backlog.pop_front() {
                writeln!(out, "{}", json!({"e": "tack", "t": mqtt::tname(ack.t), "id": id})).unwrap();
                pipe.inject(mqtt::encode(&ack, 9));
                continue;
            }
            if all_done {
                idle_rounds += 1;
                if idle_rounds > 20 {
                    break;
                }
            }
            std::thread::sleep(Duration::from_micros(200));
        } else {
            idle_rounds = 0;
        }
        if stop.load(Ordering::SeqCst) {
            break;
        }
    }
    for w in workers {
        let _ = w.join();
    }
    pipe.end(crate::io::End::Eof);
    let _ = ctx_thread.join();
    writeln!(out, "{}", json!({"e": "tdone", "failed": failed.load(Ordering::SeqCst), "written": nwr, "expected": nthreads * per, "connect": seen_connect as u8})).unwrap();
    writeln!(out, "{}", json!({"e": "end"})).unwrap();
    0
}
